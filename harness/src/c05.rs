//! C05 — schema `check` verdict is exact on the implemented type-system rules.
//!
//! Valid direction: E1 over variations of a base schema (every directive on every type-system
//! location, definition/extension splits across files, orders, field shapes) that R-VALID-TS
//! confirms valid -> zero diagnostics. Invalid direction: every single-fault mutation of the
//! base schemas at every applicable site, labelled with its rule and confirmed by R-VALID-TS
//! -> at least one diagnostic.

use crate::explore::{par_for, Chooser, DistinctSet, ExploreCfg, explore, fnv};
use crate::gql::*;
use crate::pipeline;
use crate::render::ts_text;
use crate::report::{Args, Reporter, Violation, stats_json};
use crate::rparse::{TS_LOCATIONS, parse_ts};
use crate::util::catch;
use crate::valid_ts::{self, IMPLEMENTED};
use serde_json::{Value as J, json};
use std::collections::BTreeMap;
use std::sync::Mutex;
use std::sync::atomic::{AtomicU64, Ordering};
use std::time::Duration;

pub const BASE_TS: &str = r#"
schema @all { query: Query mutation: Mutation }
type Query { node(id: ID!): Node named(first: Int = 10, filter: Filter): [Named!]! search: [Result] kind: Kind version: Version }
type Mutation { set(input: Filter!, kinds: [Kind!] = [A]): User }
interface Node { id: ID! }
interface Named implements Node { id: ID! name(upper: Boolean): String aliases: [String!] related: [[Node]] }
type User implements Node & Named { id: ID! name(upper: Boolean, locale: String): String! aliases: [String!]! related: [[User!]!] posts: [Post!] }
type Post implements Node { id: ID! title: String author: User! }
union Result = User | Post
enum Kind { A B }
input Filter { kind: Kind = A name: String nested: Filter ids: [ID!] codes: [Int!]! = [1, 2] }
scalar Version
directive @all repeatable on SCHEMA | SCALAR | OBJECT | FIELD_DEFINITION | ARGUMENT_DEFINITION | INTERFACE | UNION | ENUM | ENUM_VALUE | INPUT_OBJECT | INPUT_FIELD_DEFINITION
directive @one(n: Int = 1, k: Kind, f: Filter) on SCHEMA | SCALAR | OBJECT | FIELD_DEFINITION | ARGUMENT_DEFINITION | INTERFACE | UNION | ENUM | ENUM_VALUE | INPUT_OBJECT | INPUT_FIELD_DEFINITION
directive @exec(x: Int) on FIELD | QUERY
"#;

pub fn base() -> TsDoc {
    parse_ts(BASE_TS).unwrap_or_else(|e| crate::report::machinery(&format!("C05 base schema: {e}")))
}

#[derive(Clone, Debug, PartialEq)]
pub enum Site {
    Def(usize),
    Field(usize, usize),
    FieldArg(usize, usize, usize),
    EnumValue(usize, usize),
    InputField(usize, usize),
    DirArg(usize, usize),
}

/// every directive-bearing site with its location name and a context tag (for classification)
pub fn sites(doc: &TsDoc) -> Vec<(Site, &'static str, String)> {
    let mut out = vec![];
    for (i, d) in doc.defs.iter().enumerate() {
        let loc = match d.kind {
            TsKind::Schema => "SCHEMA",
            TsKind::Scalar => "SCALAR",
            TsKind::Object => "OBJECT",
            TsKind::Interface => "INTERFACE",
            TsKind::Union => "UNION",
            TsKind::Enum => "ENUM",
            TsKind::Input => "INPUT_OBJECT",
            TsKind::Directive => "",
        };
        let kw = format!("{}{}", if d.ext { "extend-" } else { "" }, d.kind.kw());
        if !loc.is_empty() {
            out.push((Site::Def(i), loc, kw.clone()));
        }
        for (j, f) in d.fields.iter().enumerate() {
            out.push((Site::Field(i, j), "FIELD_DEFINITION", kw.clone()));
            for k in 0..f.args.as_ref().map_or(0, |a| a.len()) {
                out.push((Site::FieldArg(i, j, k), "ARGUMENT_DEFINITION", kw.clone()));
            }
        }
        for j in 0..d.values.len() {
            out.push((Site::EnumValue(i, j), "ENUM_VALUE", kw.clone()));
        }
        for j in 0..d.input_fields.len() {
            out.push((Site::InputField(i, j), "INPUT_FIELD_DEFINITION", kw.clone()));
        }
        for k in 0..d.dir_args.as_ref().map_or(0, |a| a.len()) {
            out.push((Site::DirArg(i, k), "ARGUMENT_DEFINITION", "directive".into()));
        }
    }
    out
}

pub fn dirs_at<'a>(doc: &'a mut TsDoc, s: &Site) -> &'a mut Vec<Dir> {
    match s {
        Site::Def(i) => &mut doc.defs[*i].dirs,
        Site::Field(i, j) => &mut doc.defs[*i].fields[*j].dirs,
        Site::FieldArg(i, j, k) => &mut doc.defs[*i].fields[*j].args.as_mut().unwrap()[*k].dirs,
        Site::EnumValue(i, j) => &mut doc.defs[*i].values[*j].dirs,
        Site::InputField(i, j) => &mut doc.defs[*i].input_fields[*j].dirs,
        Site::DirArg(i, k) => &mut doc.defs[*i].dir_args.as_mut().unwrap()[*k].dirs,
    }
}

fn int(n: i64) -> Value {
    Value::Int(P::default(), n.to_string())
}
fn s(x: &str) -> Value {
    Value::Str(P::default(), x.to_string())
}

/// directives that are valid at `loc`
fn valid_dirs_for(loc: &str) -> Vec<Dir> {
    let mut v = vec![dir("all", vec![]), dir("one", vec![]), dir("one", vec![("n", int(2)), ("k", Value::Enum(P::default(), "B".into()))])];
    if ["FIELD_DEFINITION", "ARGUMENT_DEFINITION", "INPUT_FIELD_DEFINITION", "ENUM_VALUE"].contains(&loc) {
        v.push(dir("deprecated", vec![]));
        // a reason that needs escapes in SDL and in JSON, and that would close a comment
        v.push(dir("deprecated", vec![("reason", s("say \"no\"\nnow \\ é */"))]));
    }
    if loc == "SCALAR" {
        v.push(dir("specifiedBy", vec![("url", s("u"))]));
    }
    v
}

pub struct Case {
    pub files: Vec<TsDoc>,
    pub tags: Vec<String>,
}

fn fld(name: &str, ty: Ty) -> FieldDef {
    FieldDef { desc: None, name: nm(name), args: None, ty, dirs: vec![] }
}
fn ivd(name: &str, ty: Ty, default: Option<Value>) -> InputValueDef {
    InputValueDef { desc: None, p: P::default(), name: nm(name), ty, default, dirs: vec![] }
}

/// E1 generator of (intended-)valid variations
pub fn gen_valid(c: &mut Chooser) -> Case {
    let mut doc = base();
    let mut tags = vec![];
    // 1. directive applications: up to 2 sites
    let all_sites = sites(&doc);
    for _ in 0..2 {
        let k = c.choose("dir.site", all_sites.len() + 1);
        if k == 0 {
            continue;
        }
        let (site, loc, ctx) = &all_sites[k - 1];
        let cands = valid_dirs_for(loc);
        let d = cands[c.choose("dir.which", cands.len())].clone();
        tags.push(format!("@{}:{loc}({ctx})", d.name.s));
        dirs_at(&mut doc, site).push(d);
    }
    // 2. structural additions
    match c.choose("add", 16) {
        0 => {}
        1 => doc.defs[2].fields.push(fld("extra", Ty::list(Ty::list(Ty::nn(Ty::named("Int")))))),
        2 => doc.defs[5].fields.push(FieldDef { args: Some(vec![ivd("a", Ty::nn(Ty::list(Ty::named("Kind"))), Some(Value::List(P::default(), vec![Value::Enum(P::default(), "A".into())])))]), ..fld("withArgs", Ty::named("Result")) }),
        3 => {
            // interface chain of three + implementer reachable only through the sub-interface
            let mut i = TsDef::new(TsKind::Interface, Some("Deep"));
            i.implements = vec![nm("Named"), nm("Node")];
            i.fields = vec![fld("id", Ty::nn(Ty::named("ID"))), FieldDef { args: Some(vec![ivd("upper", Ty::named("Boolean"), None)]), ..fld("name", Ty::named("String")) }, fld("deep", Ty::named("Int")), fld("aliases", Ty::list(Ty::nn(Ty::named("String")))), fld("related", Ty::list(Ty::list(Ty::named("Node"))))];
            doc.defs.push(i);
            let mut o = TsDef::new(TsKind::Object, Some("Leaf"));
            o.implements = vec![nm("Deep"), nm("Named"), nm("Node")];
            o.fields = vec![fld("id", Ty::nn(Ty::named("ID"))), FieldDef { args: Some(vec![ivd("upper", Ty::named("Boolean"), None)]), ..fld("name", Ty::named("String")) }, fld("deep", Ty::nn(Ty::named("Int"))), fld("aliases", Ty::list(Ty::nn(Ty::named("String")))), fld("related", Ty::nn(Ty::list(Ty::list(Ty::named("Leaf")))))];
            doc.defs.push(o);
        }
        4 => {
            // covariant field types: object for interface, object for union, non-null for nullable, list depth
            let mut i = TsDef::new(TsKind::Interface, Some("HasOwner"));
            i.fields = vec![fld("owner", Ty::named("Named")), fld("any", Ty::named("Result")), fld("many", Ty::list(Ty::named("Node")))];
            doc.defs.push(i);
            let mut o = TsDef::new(TsKind::Object, Some("Thing"));
            o.implements = vec![nm("HasOwner")];
            o.fields = vec![fld("owner", Ty::nn(Ty::named("User"))), fld("any", Ty::named("Post")), fld("many", Ty::nn(Ty::list(Ty::nn(Ty::named("Post")))))];
            doc.defs.push(o);
        }
        5 => {
            // an interface nobody implements, a union of one, an extra optional argument on an implementer
            let mut i = TsDef::new(TsKind::Interface, Some("Lonely"));
            i.fields = vec![fld("x", Ty::named("Int"))];
            doc.defs.push(i);
            let mut u = TsDef::new(TsKind::Union, Some("One"));
            u.members = vec![nm("Post")];
            doc.defs.push(u);
        }
        6 => {
            // harmless directive diamond: two arguments of @a both carry @b
            let mut b = TsDef::new(TsKind::Directive, Some("bb"));
            b.locations = vec![nm("ARGUMENT_DEFINITION")];
            doc.defs.push(b);
            let mut a = TsDef::new(TsKind::Directive, Some("aa"));
            a.locations = vec![nm("FIELD")];
            a.dir_args = Some(vec![
                InputValueDef { dirs: vec![dir("bb", vec![])], ..ivd("x", Ty::named("Int"), None) },
                InputValueDef { dirs: vec![dir("bb", vec![])], ..ivd("y", Ty::named("Int"), None) },
            ]);
            doc.defs.push(a);
            tags.push("directive-diamond".into());
        }
        7 => {
            // directive whose argument is an input object that itself uses another directive
            let mut inp = TsDef::new(TsKind::Input, Some("Opts"));
            inp.input_fields = vec![InputValueDef { dirs: vec![dir("all", vec![])], ..ivd("o", Ty::named("Int"), Some(int(3))) }];
            doc.defs.push(inp);
            let mut a = TsDef::new(TsKind::Directive, Some("cfg"));
            a.locations = vec![nm("OBJECT")];
            a.dir_args = Some(vec![ivd("opts", Ty::named("Opts"), Some(Value::Obj(P::default(), vec![(nm("o"), int(1))])))]);
            doc.defs.push(a);
            doc.defs[5].dirs.push(dir("cfg", vec![("opts", Value::Obj(P::default(), vec![]))]));
        }
        8 => {
            // subscription root + explicit schema listing it
            let mut o = TsDef::new(TsKind::Object, Some("Sub"));
            o.fields = vec![fld("tick", Ty::nn(Ty::named("Int")))];
            doc.defs.push(o);
            doc.defs[0].roots.push((OpKind::Subscription, nm("Sub")));
        }
        9 => {
            // implicit schema (no schema definition)
            doc.defs.remove(0);
            tags.push("implicit-schema".into());
        }
        10 => {
            // descriptions everywhere, incl. hostile characters
            for d in doc.defs.iter_mut() {
                if d.kind != TsKind::Directive || true {
                    d.desc = Some((P::default(), "d \"q\" \\ */ ` ${x}".into()));
                }
                for f in d.fields.iter_mut() {
                    f.desc = Some((P::default(), "f".into()));
                }
            }
        }
        14 => {
            // an undecorated schema definition that lists only `query: Query`, while an ordinary object type called
            // `Mutation` exists: the default root names must not be read into it
            doc.defs[0].roots.retain(|r| r.0 == OpKind::Query);
            doc.defs[0].dirs.clear();
            tags.push("type-named-Mutation-that-is-not-a-root".into());
        }
        13 => {
            // one name in several namespaces: types named like directives that are applied (built-in and
            // custom ones), a directive named like a type, a field named like its type, an enum value named
            // like a type, an argument named like its field
            let mut e = TsDef::new(TsKind::Enum, Some("deprecated"));
            e.values = vec![EnumValDef { desc: None, name: nm("YES"), dirs: vec![] }, EnumValDef { desc: None, name: nm("User"), dirs: vec![dir("deprecated", vec![])] }];
            doc.defs.push(e);
            doc.defs.push(TsDef::new(TsKind::Scalar, Some("all")));
            let mut sb = TsDef::new(TsKind::Scalar, Some("specifiedBy"));
            sb.dirs = vec![dir("specifiedBy", vec![("url", s("https://example.com/s"))])];
            doc.defs.push(sb);
            let mut i = TsDef::new(TsKind::Input, Some("skip"));
            i.input_fields = vec![InputValueDef { dirs: vec![dir("deprecated", vec![])], ..ivd("include", Ty::named("deprecated"), None) }];
            doc.defs.push(i);
            let mut d = TsDef::new(TsKind::Directive, Some("User"));
            d.locations = vec![nm("FIELD_DEFINITION")];
            doc.defs.push(d);
            doc.defs[6].fields.push(FieldDef { dirs: vec![dir("deprecated", vec![]), dir("User", vec![])], args: Some(vec![ivd("Post", Ty::named("skip"), None)]), ..fld("Post", Ty::named("Post")) });
            doc.defs[6].fields.push(fld("all", Ty::named("all")));
            tags.push("names-shared-across-namespaces".into());
        }
        12 => {
            // a valid extension of a built-in scalar
            let mut e = TsDef::new(TsKind::Scalar, Some("ID"));
            e.ext = true;
            e.dirs = vec![dir("all", vec![]), dir("one", vec![("n", int(2))])];
            doc.defs.push(e);
            tags.push("extend-builtin-scalar".into());
        }
        11 => {
            // an interface that implements another one only through an extension, and a covariant field
            // type that is valid only because of it
            let mut b = TsDef::new(TsKind::Interface, Some("Base2"));
            b.fields = vec![fld("b", Ty::named("Int"))];
            doc.defs.push(b);
            let mut m = TsDef::new(TsKind::Interface, Some("Mid"));
            m.fields = vec![fld("b", Ty::named("Int")), fld("m", Ty::named("Int"))];
            doc.defs.push(m);
            let mut e = TsDef::new(TsKind::Interface, Some("Mid"));
            e.ext = true;
            e.implements = vec![nm("Base2")];
            doc.defs.push(e);
            let mut i = TsDef::new(TsKind::Object, Some("Impl"));
            i.implements = vec![nm("Mid"), nm("Base2")];
            i.fields = vec![fld("b", Ty::named("Int")), fld("m", Ty::named("Int"))];
            doc.defs.push(i);
            let mut h = TsDef::new(TsKind::Interface, Some("HasB"));
            h.fields = vec![fld("x", Ty::named("Base2"))];
            doc.defs.push(h);
            let mut t = TsDef::new(TsKind::Object, Some("HasBImpl"));
            t.implements = vec![nm("HasB")];
            t.fields = vec![fld("x", Ty::named("Mid"))];
            doc.defs.push(t);
            tags.push("interface-implements-through-extension".into());
        }
        _ => {
            // default values of every kind on arguments and input fields
            doc.defs[9].input_fields.push(ivd("deflt", Ty::list(Ty::named("Filter")), Some(Value::List(P::default(), vec![Value::Obj(P::default(), vec![(nm("name"), s("n")), (nm("ids"), Value::List(P::default(), vec![s("1"), int(2)]))])]))));
            doc.defs[9].input_fields.push(ivd("fl", Ty::named("Float"), Some(int(1))));
            doc.defs[9].input_fields.push(ivd("single", Ty::list(Ty::named("Int")), Some(int(1))));
        }
    }
    // 3. split one definition into definition + extension(s)
    let k = c.choose("split.def", doc.defs.len() + 1);
    let mut second_file: Vec<TsDef> = vec![];
    if k > 0 && doc.defs[k - 1].kind != TsKind::Directive {
        let i = k - 1;
        let mut ext = doc.defs[i].clone();
        ext.ext = true;
        ext.desc = None;
        let d = &mut doc.defs[i];
        // move the last component of each list into the extension
        let keep = |n: usize| if n > 1 { n - 1 } else { n };
        let (nf, nv, ni, nm_, nr, nd, nim) = (keep(d.fields.len()), keep(d.values.len()), keep(d.input_fields.len()), keep(d.members.len()), keep(d.roots.len()), 0usize.max(d.dirs.len().saturating_sub(1)), keep(d.implements.len()));
        ext.fields = d.fields.split_off(nf);
        ext.values = d.values.split_off(nv);
        ext.input_fields = d.input_fields.split_off(ni);
        ext.members = d.members.split_off(nm_);
        ext.roots = d.roots.split_off(nr);
        ext.dirs = d.dirs.split_off(nd);
        // the base object must keep implementing every interface its remaining fields satisfy; move none
        let _ = nim;
        ext.implements = vec![];
        let has_body = !(ext.fields.is_empty() && ext.values.is_empty() && ext.input_fields.is_empty() && ext.members.is_empty() && ext.roots.is_empty() && ext.dirs.is_empty());
        if has_body {
            tags.push(format!("split:{}", d.kind.kw()));
            match c.choose("split.where", 4) {
                0 => doc.defs.push(ext),
                1 => doc.defs.insert(0, ext),
                2 => second_file.push(ext),
                _ => {
                    // extension in file 1, definition moved to file 2
                    let def = doc.defs.remove(i);
                    doc.defs.push(ext);
                    second_file.push(def);
                }
            }
        }
    }
    // 4. order
    match c.choose("order", 3) {
        0 => {}
        1 => doc.defs.reverse(),
        _ => doc.defs.rotate_left(3),
    }
    let mut files = vec![doc];
    if !second_file.is_empty() {
        files.push(TsDoc { defs: second_file });
    }
    Case { files, tags }
}

/// single-fault mutants: (rule label, site description, document)
pub fn mutants(base: &TsDoc) -> Vec<(&'static str, String, TsDoc)> {
    let mut out: Vec<(&'static str, String, TsDoc)> = vec![];
    let nope = || Ty::named("Nope");
    let idx = |name: &str| base.defs.iter().position(|d| d.name_str() == name && !d.ext).unwrap();
    // --- reserved names: add an item with a reserved name at every kind of nameable site
    for (i, d) in base.defs.iter().enumerate() {
        let kw = d.kind.kw();
        if matches!(d.kind, TsKind::Object | TsKind::Interface) {
            let mut m = base.clone();
            m.defs[i].fields.push(fld("__f", Ty::named("Int")));
            out.push(("name.reserved", format!("field of {kw} {}", d.name_str()), m));
            for (j, f) in d.fields.iter().enumerate() {
                if f.args.is_some() {
                    let mut m = base.clone();
                    m.defs[i].fields[j].args.as_mut().unwrap().push(ivd("__a", Ty::named("Int"), None));
                    out.push(("name.reserved", format!("argument of {}.{}", d.name_str(), f.name.s), m));
                }
            }
        }
        if d.kind == TsKind::Enum {
            let mut m = base.clone();
            m.defs[i].values.push(EnumValDef { desc: None, name: nm("__V"), dirs: vec![] });
            out.push(("name.reserved", "enum value".into(), m));
        }
        if d.kind == TsKind::Input {
            let mut m = base.clone();
            m.defs[i].input_fields.push(ivd("__f", Ty::named("Int"), None));
            out.push(("name.reserved", "input field".into(), m));
        }
        if d.kind == TsKind::Directive && d.dir_args.is_some() {
            let mut m = base.clone();
            m.defs[i].dir_args.as_mut().unwrap().push(ivd("__a", Ty::named("Int"), None));
            out.push(("name.reserved", "directive argument".into(), m));
        }
    }
    for kind in [TsKind::Scalar, TsKind::Object, TsKind::Interface, TsKind::Union, TsKind::Enum, TsKind::Input, TsKind::Directive] {
        let mut m = base.clone();
        let mut d = TsDef::new(kind, Some("__T"));
        match kind {
            TsKind::Object | TsKind::Interface => d.fields = vec![fld("a", Ty::named("Int"))],
            TsKind::Union => d.members = vec![nm("Post")],
            TsKind::Enum => d.values = vec![EnumValDef { desc: None, name: nm("V"), dirs: vec![] }],
            TsKind::Input => d.input_fields = vec![ivd("a", Ty::named("Int"), None)],
            TsKind::Directive => d.locations = vec![nm("FIELD")],
            _ => {}
        }
        m.defs.push(d);
        out.push(("name.reserved", format!("{} definition", kind.kw()), m));
    }
    // --- duplicates
    for (i, d) in base.defs.iter().enumerate() {
        let kw = d.kind.kw();
        for j in 0..d.fields.len() {
            let mut m = base.clone();
            let f = m.defs[i].fields[j].clone();
            m.defs[i].fields.push(f);
            out.push(("dup.field", format!("{kw} {}.{}", d.name_str(), d.fields[j].name.s), m));
            if let Some(a) = &d.fields[j].args {
                for k in 0..a.len() {
                    let mut m = base.clone();
                    let x = a[k].clone();
                    m.defs[i].fields[j].args.as_mut().unwrap().push(x);
                    out.push(("dup.arg", format!("{kw} {}.{}({})", d.name_str(), d.fields[j].name.s, a[k].name.s), m));
                }
            }
        }
        for j in 0..d.input_fields.len() {
            let mut m = base.clone();
            let f = m.defs[i].input_fields[j].clone();
            m.defs[i].input_fields.push(f);
            out.push(("dup.field", format!("input {}.{}", d.name_str(), d.input_fields[j].name.s), m));
        }
        for j in 0..d.values.len() {
            let mut m = base.clone();
            let f = m.defs[i].values[j].clone();
            m.defs[i].values.push(f);
            out.push(("dup.enum_value", d.values[j].name.s.clone(), m));
        }
        for j in 0..d.members.len() {
            let mut m = base.clone();
            let f = m.defs[i].members[j].clone();
            m.defs[i].members.push(f);
            out.push(("dup.member", d.members[j].s.clone(), m));
        }
        if let Some(a) = &d.dir_args {
            for k in 0..a.len() {
                let mut m = base.clone();
                let x = a[k].clone();
                m.defs[i].dir_args.as_mut().unwrap().push(x);
                out.push(("dup.arg", format!("directive @{}({})", d.name_str(), a[k].name.s), m));
            }
        }
        if d.kind != TsKind::Directive && !d.ext {
            let mut m = base.clone();
            let c = m.defs[i].clone();
            m.defs.push(c);
            out.push(("dup.type", format!("{kw} {}", d.name_str()), m));
            // orphan extension
            let mut m = base.clone();
            let mut e = m.defs.remove(i);
            e.ext = true;
            e.desc = None;
            if !(e.dirs.is_empty() && e.fields.is_empty() && e.members.is_empty() && e.values.is_empty() && e.input_fields.is_empty() && e.roots.is_empty() && e.implements.is_empty()) && d.kind != TsKind::Schema {
                // other definitions refer to the removed one; only the orphan rule is demanded
                m.defs.push(e);
                out.push(("ext.orphan", format!("{kw} {}", d.name_str()), m));
            }
        }
    }
    // --- unknown types at every referencing site
    for (i, d) in base.defs.iter().enumerate() {
        let kw = d.kind.kw();
        for j in 0..d.fields.len() {
            let mut m = base.clone();
            m.defs[i].fields[j].ty = nope();
            out.push(("type.unknown", format!("field type in {kw}"), m));
            let mut m = base.clone();
            m.defs[i].fields[j].ty = Ty::nn(Ty::list(Ty::nn(nope())));
            out.push(("type.unknown", format!("wrapped field type in {kw}"), m));
            if let Some(a) = &d.fields[j].args {
                for k in 0..a.len() {
                    let mut m = base.clone();
                    m.defs[i].fields[j].args.as_mut().unwrap()[k].ty = nope();
                    m.defs[i].fields[j].args.as_mut().unwrap()[k].default = None;
                    out.push(("type.unknown", format!("argument type in {kw}"), m));
                }
            }
        }
        for j in 0..d.input_fields.len() {
            let mut m = base.clone();
            m.defs[i].input_fields[j].ty = nope();
            m.defs[i].input_fields[j].default = None;
            out.push(("type.unknown", "input field type".into(), m));
        }
        for j in 0..d.members.len() {
            let mut m = base.clone();
            m.defs[i].members[j] = nm("Nope");
            out.push(("type.unknown", "union member".into(), m));
        }
        for j in 0..d.implements.len() {
            let mut m = base.clone();
            m.defs[i].implements[j] = nm("Nope");
            out.push(("type.unknown", format!("implements of {kw}"), m));
        }
        for j in 0..d.roots.len() {
            let mut m = base.clone();
            m.defs[i].roots[j].1 = nm("Nope");
            out.push(("type.unknown", "root operation type".into(), m));
        }
        if let Some(a) = &d.dir_args {
            for k in 0..a.len() {
                let mut m = base.clone();
                m.defs[i].dir_args.as_mut().unwrap()[k].ty = nope();
                m.defs[i].dir_args.as_mut().unwrap()[k].default = None;
                out.push(("type.unknown", "directive argument type".into(), m));
            }
        }
    }
    // --- input / output misuse
    for (i, d) in base.defs.iter().enumerate() {
        for j in 0..d.fields.len() {
            let mut m = base.clone();
            m.defs[i].fields[j].ty = Ty::named("Filter");
            out.push(("type.output_expected", format!("{} field", d.kind.kw()), m));
            if d.fields[j].args.is_some() {
                for bad in ["User", "Node", "Result"] {
                    let mut m = base.clone();
                    let a = &mut m.defs[i].fields[j].args.as_mut().unwrap()[0];
                    a.ty = Ty::named(bad);
                    a.default = None;
                    out.push(("type.input_expected", format!("argument of type {bad}"), m));
                }
            }
        }
        for j in 0..d.input_fields.len() {
            for bad in ["User", "Node", "Result"] {
                let mut m = base.clone();
                m.defs[i].input_fields[j].ty = Ty::list(Ty::named(bad));
                m.defs[i].input_fields[j].default = None;
                out.push(("type.input_expected", format!("input field of type {bad}"), m));
            }
        }
        if d.dir_args.is_some() {
            let mut m = base.clone();
            m.defs[i].dir_args.as_mut().unwrap()[0].ty = Ty::named("Post");
            m.defs[i].dir_args.as_mut().unwrap()[0].default = None;
            out.push(("type.input_expected", "directive argument".into(), m));
        }
    }
    // --- implements
    let (user, named, node, post) = (idx("User"), idx("Named"), idx("Node"), idx("Post"));
    for bad in ["Post", "Result", "Kind", "Filter", "Version"] {
        let mut m = base.clone();
        m.defs[user].implements.push(nm(bad));
        out.push(("implements.not_interface", format!("type implements {bad}"), m));
        let mut m = base.clone();
        m.defs[named].implements.push(nm(bad));
        out.push(("implements.not_interface", format!("interface implements {bad}"), m));
    }
    {
        let mut m = base.clone();
        m.defs[node].implements.push(nm("Node"));
        out.push(("implements.self", "interface Node implements Node".into(), m));
        let mut m = base.clone();
        m.defs[user].implements.retain(|i| i.s != "Node");
        out.push(("implements.transitive", "User implements Named but not Node".into(), m));
        for (t, fname) in [(user, "id"), (user, "name"), (post, "id"), (named, "id")] {
            let mut m = base.clone();
            m.defs[t].fields.retain(|f| f.name.s != fname);
            out.push(("implements.field_missing", format!("{}.{fname}", base.defs[t].name_str()), m));
        }
        for (t, fname, ty) in [
            (user, "id", Ty::named("ID")),
            (user, "id", Ty::nn(Ty::named("String"))),
            (user, "name", Ty::named("Int")),
            (user, "name", Ty::list(Ty::named("String"))),
            (post, "id", Ty::nn(Ty::list(Ty::named("ID")))),
            (named, "id", Ty::named("ID")),
            (user, "aliases", Ty::list(Ty::nn(Ty::named("Int")))),
            (user, "aliases", Ty::list(Ty::named("String"))),
            (user, "aliases", Ty::list(Ty::list(Ty::nn(Ty::named("String"))))),
            (user, "aliases", Ty::nn(Ty::named("String"))),
            (user, "related", Ty::list(Ty::list(Ty::named("Kind")))),
            (user, "related", Ty::list(Ty::named("User"))),
            (user, "related", Ty::list(Ty::list(Ty::named("Result")))),
        ] {
            let mut m = base.clone();
            m.defs[t].fields.iter_mut().find(|f| f.name.s == fname).unwrap().ty = ty.clone();
            out.push(("implements.field_type", format!("{}.{fname}: {}", base.defs[t].name_str(), ty.show()), m));
        }
        let mut m = base.clone();
        m.defs[user].fields.iter_mut().find(|f| f.name.s == "name").unwrap().args.as_mut().unwrap().remove(0);
        out.push(("implements.arg_missing", "User.name(upper)".into(), m));
        let mut m = base.clone();
        m.defs[user].fields.iter_mut().find(|f| f.name.s == "name").unwrap().args = None;
        out.push(("implements.arg_missing", "User.name without arguments".into(), m));
        for ty in [Ty::nn(Ty::named("Boolean")), Ty::named("String"), Ty::list(Ty::named("Boolean"))] {
            let mut m = base.clone();
            m.defs[user].fields.iter_mut().find(|f| f.name.s == "name").unwrap().args.as_mut().unwrap()[0].ty = ty.clone();
            out.push(("implements.arg_type", format!("User.name(upper: {})", ty.show()), m));
        }
        let mut m = base.clone();
        m.defs[user].fields.iter_mut().find(|f| f.name.s == "name").unwrap().args.as_mut().unwrap()[1].ty = Ty::nn(Ty::named("String"));
        out.push(("implements.extra_required_arg", "User.name(locale: String!)".into(), m));
        // the interface field has no arguments at all, the implementer adds a required one
        let mut m = base.clone();
        m.defs[user].fields.iter_mut().find(|f| f.name.s == "id").unwrap().args = Some(vec![ivd("fmt", Ty::nn(Ty::named("String")), None)]);
        out.push(("implements.extra_required_arg", "User.id(fmt: String!) where Node.id has no arguments".into(), m));
    }
    // --- union members
    let result = idx("Result");
    for bad in ["Node", "Kind", "Filter", "Version", "Result", "Int"] {
        let mut m = base.clone();
        m.defs[result].members.push(nm(bad));
        out.push(("union.member_not_object", bad.to_string(), m));
    }
    // --- directive applications at every site
    for (site, loc, ctx) in sites(base) {
        let mut m = base.clone();
        dirs_at(&mut m, &site).push(dir("nope", vec![]));
        out.push(("dir.unknown", format!("{loc}({ctx})"), m));
        // misplaced: an executable-only directive, and a type-system one that does not allow this location
        let mut m = base.clone();
        dirs_at(&mut m, &site).push(dir("exec", vec![]));
        out.push(("dir.location", format!("@exec at {loc}({ctx})"), m));
        if !["FIELD_DEFINITION", "ARGUMENT_DEFINITION", "INPUT_FIELD_DEFINITION", "ENUM_VALUE"].contains(&loc) {
            let mut m = base.clone();
            dirs_at(&mut m, &site).push(dir("deprecated", vec![]));
            out.push(("dir.location", format!("@deprecated at {loc}({ctx})"), m));
        }
        if loc != "SCALAR" {
            let mut m = base.clone();
            dirs_at(&mut m, &site).push(dir("specifiedBy", vec![("url", s("u"))]));
            out.push(("dir.location", format!("@specifiedBy at {loc}({ctx})"), m));
        }
        let mut m = base.clone();
        dirs_at(&mut m, &site).push(dir("one", vec![]));
        dirs_at(&mut m, &site).push(dir("one", vec![("n", int(3))]));
        out.push(("dir.repeated", format!("{loc}({ctx})"), m));
        for (what, d) in [
            ("unknown argument", dir("one", vec![("zz", int(1))])),
            ("ill-typed argument", dir("one", vec![("n", s("x"))])),
            ("unknown enum member", dir("one", vec![("k", Value::Enum(P::default(), "ZZ".into()))])),
            ("argument on a directive without arguments", dir("all", vec![("n", int(1))])),
            // object literals for an input-object argument: a field the type does not define, alone (every defined
            // field omitted), next to a known one, and one level down
            ("unknown input field alone", dir("one", vec![("f", Value::Obj(P::default(), vec![(nm("zz"), int(1))]))])),
            ("unknown input field next to a known one", dir("one", vec![("f", Value::Obj(P::default(), vec![(nm("name"), s("x")), (nm("zz"), int(1))]))])),
            ("unknown nested input field", dir("one", vec![("f", Value::Obj(P::default(), vec![(nm("nested"), Value::Obj(P::default(), vec![(nm("zz"), int(1))]))]))])),
            ("ill-typed input field", dir("one", vec![("f", Value::Obj(P::default(), vec![(nm("name"), int(1))]))])),
        ] {
            let mut m = base.clone();
            dirs_at(&mut m, &site).push(d);
            out.push(("dir.arg", format!("{what} at {loc}({ctx})"), m));
        }
        if loc == "SCALAR" {
            let mut m = base.clone();
            dirs_at(&mut m, &site).push(dir("specifiedBy", vec![]));
            out.push(("dir.arg", "missing required argument".into(), m));
        }
    }
    // --- directive applications on an extension of a built-in scalar (its definition is implicit)
    for b in ["ID", "String", "Int"] {
        let ext = |dirs: Vec<Dir>| {
            let mut m = base.clone();
            let mut e = TsDef::new(TsKind::Scalar, Some(b));
            e.ext = true;
            e.dirs = dirs;
            m.defs.push(e);
            m
        };
        out.push(("dir.unknown", format!("SCALAR(extend-builtin-scalar {b})"), ext(vec![dir("nope", vec![])])));
        out.push(("dir.location", format!("@exec at SCALAR(extend-builtin-scalar {b})"), ext(vec![dir("exec", vec![])])));
        out.push(("dir.repeated", format!("SCALAR(extend-builtin-scalar {b})"), ext(vec![dir("one", vec![]), dir("one", vec![("n", int(3))])])));
        out.push(("dir.arg", format!("ill-typed argument at SCALAR(extend-builtin-scalar {b})"), ext(vec![dir("one", vec![("n", s("x"))])])));
    }
    // --- directive recursion, lengths 1..3 and through an input object
    {
        let mk = |name: &str, arg_dirs: Vec<Dir>, arg_ty: Ty| {
            let mut d = TsDef::new(TsKind::Directive, Some(name));
            d.locations = vec![nm("ARGUMENT_DEFINITION"), nm("INPUT_FIELD_DEFINITION")];
            d.dir_args = Some(vec![InputValueDef { dirs: arg_dirs, ..ivd("x", arg_ty, None) }]);
            d
        };
        let mut m = base.clone();
        m.defs.push(mk("r1", vec![dir("r1", vec![])], Ty::named("Int")));
        out.push(("dir.recursive", "length 1".into(), m));
        let mut m = base.clone();
        m.defs.push(mk("r1", vec![dir("r2", vec![])], Ty::named("Int")));
        m.defs.push(mk("r2", vec![dir("r1", vec![])], Ty::named("Int")));
        out.push(("dir.recursive", "length 2".into(), m));
        let mut m = base.clone();
        m.defs.push(mk("r1", vec![dir("r2", vec![])], Ty::named("Int")));
        m.defs.push(mk("r2", vec![dir("r3", vec![])], Ty::named("Int")));
        m.defs.push(mk("r3", vec![dir("r1", vec![])], Ty::named("Int")));
        out.push(("dir.recursive", "length 3".into(), m));
        let mut m = base.clone();
        let mut inp = TsDef::new(TsKind::Input, Some("RI"));
        inp.input_fields = vec![InputValueDef { dirs: vec![dir("r1", vec![])], ..ivd("f", Ty::named("Int"), None) }];
        m.defs.push(inp);
        m.defs.push(mk("r1", vec![], Ty::named("RI")));
        out.push(("dir.recursive", "through an input object field".into(), m));
        // a directive OUTSIDE the cycle that refers into it, defined before / after / between the cycle's members,
        // and a cycle reachable only through a chain of two such directives
        for (place, tag) in [(0usize, "referrer defined before the cycle"), (1, "referrer defined after the cycle"), (2, "referrer between the members of the cycle")] {
            for len in 1..=2usize {
                let mut m = base.clone();
                let cycle: Vec<TsDef> = if len == 1 { vec![mk("r1", vec![dir("r1", vec![])], Ty::named("Int"))] } else { vec![mk("r1", vec![dir("r2", vec![])], Ty::named("Int")), mk("r2", vec![dir("r1", vec![])], Ty::named("Int"))] };
                let outer = mk("outer", vec![dir("r1", vec![])], Ty::named("Int"));
                match place {
                    0 => {
                        m.defs.push(outer);
                        m.defs.extend(cycle);
                    }
                    1 => {
                        m.defs.extend(cycle);
                        m.defs.push(outer);
                    }
                    _ => {
                        if len == 1 {
                            continue;
                        }
                        let mut c = cycle.into_iter();
                        m.defs.push(c.next().unwrap());
                        m.defs.push(outer);
                        m.defs.extend(c);
                    }
                }
                out.push(("dir.recursive", format!("length {len}, {tag}"), m));
            }
        }
        let mut m = base.clone();
        m.defs.push(mk("outer2", vec![dir("outer", vec![])], Ty::named("Int")));
        m.defs.push(mk("outer", vec![dir("r1", vec![])], Ty::named("Int")));
        m.defs.push(mk("r1", vec![dir("r1", vec![])], Ty::named("Int")));
        out.push(("dir.recursive", "length 1, reached through a chain of two referrers defined before it".into(), m));
        // two disjoint cycles: both must be reported (or at least the schema rejected)
        let mut m = base.clone();
        m.defs.push(mk("r1", vec![dir("r1", vec![])], Ty::named("Int")));
        m.defs.push(mk("q1", vec![dir("q2", vec![])], Ty::named("Int")));
        m.defs.push(mk("q2", vec![dir("q1", vec![])], Ty::named("Int")));
        out.push(("dir.recursive", "two disjoint cycles".into(), m));
    }
    out
}

/// the verdict of the real `nitrogql-cli check` on the files as a project (exit status, stdout)
fn run_cli_check(files: &[String]) -> (Option<i32>, String) {
    use crate::cli;
    let mut p = cli::Project::default();
    for (i, f) in files.iter().enumerate() {
        p.files.insert(format!("schema/f{i}.graphql"), f.clone());
    }
    p.files.insert("graphql.config.yaml".into(), "schema: ./schema/*.graphql\n".into());
    let dir = cli::thread_dir("c05");
    cli::materialize(&dir, &p);
    let a: Vec<String> = ["--config-file", "graphql.config.yaml", "--output-format", "json", "check"].iter().map(|x| x.to_string()).collect();
    let r = cli::run(&dir, &a, &[], Duration::from_secs(60));
    (if r.timed_out { None } else { r.code }, r.stdout)
}

fn run_subject(files: &[String]) -> Result<Result<(), Vec<pipeline::Diag>>, crate::util::Panic> {
    catch(|| match pipeline::parse_schema_files(files) {
        Err(f) => Err(f.diags),
        Ok(doc) => match pipeline::resolve_and_check_schema(doc) {
            Ok(_) => Ok(()),
            Err(f) => Err(f.diags),
        },
    })
}

pub fn run(args: &Args) -> i32 {
    let rep = Reporter::new("C05", &args.tier);
    crate::util::install_hook();
    let evals = AtomicU64::new(0);
    let valid_checked = AtomicU64::new(0);
    let gen_invalid = AtomicU64::new(0);
    let distinct = DistinctSet::new();
    let gen_invalid_rules: Mutex<BTreeMap<String, u64>> = Mutex::new(BTreeMap::new());
    let cli_runs = AtomicU64::new(0);
    let cli_dev = if args.quick() { 2 } else { 3 };
    // ---------- valid direction
    let stats = explore(
        &ExploreCfg { max_dev: if args.quick() { 3 } else { 4 }, threads: args.threads, budget: Duration::from_secs(if args.quick() { 40 } else { 2400 }) },
        |c: &mut Chooser| {
            let case = gen_valid(c);
            let texts: Vec<String> = case.files.iter().map(ts_text).collect();
            if !distinct.insert(fnv(texts.join("\u{1}").as_bytes())) {
                return;
            }
            evals.fetch_add(1, Ordering::Relaxed);
            let mut whole = TsDoc::default();
            for f in &case.files {
                whole.defs.extend(f.defs.iter().cloned());
            }
            let findings = valid_ts::validate(&whole);
            if !findings.is_empty() {
                gen_invalid.fetch_add(1, Ordering::Relaxed);
                *gen_invalid_rules.lock().unwrap().entry(findings[0].rule.to_string()).or_insert(0) += 1;
                return;
            }
            valid_checked.fetch_add(1, Ordering::Relaxed);
            let case_json = || json!({"direction": "valid", "files": texts, "tags": case.tags, "picks": c.picks()});
            // the same verdict through the real binary (which appends the built-in definitions itself)
            if c.deviations() <= cli_dev {
                cli_runs.fetch_add(1, Ordering::Relaxed);
                let (code, out) = run_cli_check(&texts);
                if code != Some(0) {
                    let first = serde_json::from_str::<J>(out.trim()).ok().map(|d| format!("{} {}", d["check"]["errors"][0]["message"].as_str().unwrap_or(""), d["error"]["message"].as_str().unwrap_or(""))).unwrap_or_default();
                    let tag = case.tags.iter().find(|t| !t.starts_with('@') && !t.starts_with("split")).cloned().unwrap_or_default();
                    rep.report(Violation { key: format!("cli.rejects_valid[{tag}]"), what: format!("`nitrogql-cli check` exits with {code:?} on a valid schema: {}", crate::cli::strip_ansi(&first).chars().take(300).collect::<String>()), case: case_json() });
                }
            }
            match run_subject(&texts) {
                Err(p) => rep.report(Violation { key: format!("panic@{}", p.key()), what: format!("panic at {}: {}", p.site, p.msg), case: case_json() }),
                Ok(Ok(())) => {}
                Ok(Err(diags)) => {
                    let d = &diags[0];
                    // classify by the construct the diagnostic points at
                    let tag = locate(&texts, d.pos).unwrap_or_else(|| case.tags.iter().find(|t| !t.starts_with('@') && !t.starts_with("split")).cloned().unwrap_or_default());
                    rep.report(Violation {
                        key: format!("rejects_valid:{}:{}[{}]", d.stage, d.kind, tag),
                        what: format!("valid schema rejected: {} ({})", d.msg, d.kind),
                        case: case_json(),
                    });
                }
            }
        },
    );
    // ---------- invalid direction
    let mut bases = vec![base()];
    {
        // second base: everything split into definition + extension where possible
        let mut b2 = base();
        let n = b2.defs.len();
        for i in 0..n {
            if matches!(b2.defs[i].kind, TsKind::Object | TsKind::Interface | TsKind::Enum | TsKind::Input) && (b2.defs[i].fields.len() > 1 || b2.defs[i].values.len() > 1 || b2.defs[i].input_fields.len() > 1) {
                let mut e = b2.defs[i].clone();
                e.ext = true;
                e.desc = None;
                e.implements = vec![];
                e.dirs = vec![];
                let d = &mut b2.defs[i];
                e.fields = d.fields.split_off(d.fields.len().saturating_sub(1).max(1).min(d.fields.len()));
                e.values = d.values.split_off(d.values.len().saturating_sub(1).max(1).min(d.values.len()));
                e.input_fields = d.input_fields.split_off(d.input_fields.len().saturating_sub(1).max(1).min(d.input_fields.len()));
                b2.defs.push(e);
            }
        }
        if valid_ts::validate(&b2).is_empty() {
            bases.push(b2);
        }
    }
    let mut mut_total = 0u64;
    let mut confirmed = 0u64;
    let mut unconfirmed: BTreeMap<String, u64> = BTreeMap::new();
    let mut per_rule: BTreeMap<&'static str, u64> = BTreeMap::new();
    let mut cli_jobs: Vec<(&'static str, String, Vec<String>)> = vec![];
    for (bi, b) in bases.iter().enumerate() {
        if !valid_ts::validate(b).is_empty() {
            crate::report::machinery(&format!("C05 base {bi} is not valid: {:?}", valid_ts::validate(b)));
        }
        for (label, site, m) in mutants(b) {
            mut_total += 1;
            let findings = valid_ts::validate(&m);
            if !findings.iter().any(|f| f.rule == label) {
                *unconfirmed.entry(format!("{label}: {site}")).or_insert(0) += 1;
                continue;
            }
            if !IMPLEMENTED.contains(&label) {
                continue;
            }
            confirmed += 1;
            *per_rule.entry(label).or_insert(0) += 1;
            let text = ts_text(&m);
            // also as two files: cut in the middle
            let half = m.defs.len() / 2;
            let two = vec![ts_text(&TsDoc { defs: m.defs[..half].to_vec() }), ts_text(&TsDoc { defs: m.defs[half..].to_vec() })];
            // and with every definition in a file of its own (each then starts at line 0, column 0 of its file)
            let each: Vec<String> = m.defs.iter().map(|d| ts_text(&TsDoc { defs: vec![d.clone()] })).collect();
            for files in [vec![text.clone()], two, each] {
                evals.fetch_add(1, Ordering::Relaxed);
                let case_json = || json!({"direction": "invalid", "rule": label, "site": site, "files": files, "reference_findings": findings.iter().map(|f| format!("{}: {}", f.rule, f.detail)).collect::<Vec<_>>()});
                cli_jobs.push((label, site.clone(), files.clone()));
                match run_subject(&files) {
                    Err(p) => rep.report(Violation { key: format!("panic@{}", p.key()), what: format!("panic at {}: {}", p.site, p.msg), case: case_json() }),
                    Ok(Ok(())) => rep.report(Violation {
                        key: format!("accepts_invalid:{label}[{}]", site_class(&site)),
                        what: format!("schema violating {label} ({site}) is accepted"),
                        case: case_json(),
                    }),
                    Ok(Err(diags)) => {
                        if diags.iter().all(|d| d.kind == "TypeSystemError") {
                            rep.report(Violation {
                                key: format!("only_internal_error:{label}"),
                                what: format!("schema violating {label} ({site}) only yields 'Type system error. This is a bug of checker'"),
                                case: case_json(),
                            });
                        }
                    }
                }
            }
        }
    }
    // every confirmed mutant through the real binary too
    par_for(cli_jobs.len(), args.threads, |i| {
        let (label, site, files) = &cli_jobs[i];
        cli_runs.fetch_add(1, Ordering::Relaxed);
        let (code, out) = run_cli_check(files);
        if code != Some(1) {
            rep.report(Violation {
                key: format!("cli.accepts_invalid:{label}[{}]", site_class(site)),
                what: format!("`nitrogql-cli check` exits with {code:?} on a schema violating {label} ({site})"),
                case: json!({"direction": "invalid", "rule": label, "site": site, "files": files, "stdout": out.chars().take(2000).collect::<String>()}),
            });
        }
    });
    crate::cli::cleanup("c05");
    if !unconfirmed.is_empty() {
        rep.report(Violation {
            key: "machinery.mutant_not_confirmed".into(),
            what: format!("mutants not confirmed by the reference validator: {unconfirmed:?}"),
            case: json!({}),
        });
    }
    let n = evals.load(Ordering::Relaxed);
    let cov = json!({
        "states": distinct.len() as u64 + mut_total,
        "transitions": stats.choice_edges + mut_total,
        "traces_validated_against_impl": n,
        "evaluations": n,
        "distinct_nontrivial": valid_checked.load(Ordering::Relaxed) + confirmed,
        "rule": "valid direction: E1 variations of the base schema confirmed valid by R-VALID-TS (others are dropped and counted); invalid direction: every single-fault mutant at every applicable site, confirmed by R-VALID-TS for its rule, as one file, as two files and with every definition in a file of its own; non-trivial = confirmed valid schemas + confirmed mutants",
        "exhaustive": true,
        "valid_direction": {"explorer": stats_json(&stats), "confirmed_valid_and_checked": valid_checked.load(Ordering::Relaxed), "generated_but_invalid_per_reference": gen_invalid.load(Ordering::Relaxed), "dropped_by_rule": *gen_invalid_rules.lock().unwrap()},
        "through_the_cli": {"runs_of_nitrogql_cli_check": cli_runs.load(Ordering::Relaxed), "valid_direction_up_to_deviations": cli_dev, "invalid_direction": "every confirmed mutant, as one file, as two, and with every definition in a file of its own"},
        "invalid_direction": {"bases": bases.len(), "mutants": mut_total, "confirmed_and_demanded": confirmed, "per_rule": per_rule},
        "samples": [
            {"valid": ts_text(&gen_valid(&mut Chooser::new(&crate::explore::Dev::default())).files[0])[..400.min(ts_text(&base()).len())].to_string()},
            {"mutant_rule": "implements.transitive", "site": "User implements Named but not Node"},
        ],
    });
    rep.finish(
        cov,
        vec![
            "R-VALID-TS (spec §3) decides validity and confirms every mutant's label".into(),
            "rejected = at least one diagnostic other than the checker's internal 'Type system error'".into(),
            "the same verdicts are demanded of `nitrogql-cli check` on the files as a project (valid variations up to a smaller deviation bound, every mutant): the CLI assembles the document the checker sees".into(),
            "rules outside the statement's list (cross-kind duplicate names, empty objects, default value types, input cycles, root type rules) are not demanded".into(),
        ],
    )
}

/// Which construct does a diagnostic position point at? "@dir:LOCATION(context)" for a directive
/// application, else the kind of the enclosing definition.
fn locate(texts: &[String], pos: Option<(usize, usize, usize)>) -> Option<String> {
    let (file, line, col) = pos?;
    let mut doc = parse_ts(texts.get(file)?).ok()?;
    for (site, loc, ctx) in sites(&doc.clone()) {
        for d in dirs_at(&mut doc, &site).iter() {
            if (d.p.line as usize, d.p.col as usize) == (line, col) || (d.name.p.line as usize, d.name.p.col as usize) == (line, col) {
                return Some(format!("@{}:{loc}({ctx})", d.name.s));
            }
        }
    }
    // enclosing definition; for directive definitions also name the argument directives
    let def = doc.defs.iter().rev().find(|d| (d.p_first.line as usize, d.p_first.col as usize) <= (line, col))?;
    Some(format!("in-{}{}", if def.ext { "extend-" } else { "" }, def.kind.kw()))
}

fn site_class(site: &str) -> String {
    // keep the structural part, drop instance names
    let s: String = site.chars().filter(|c| !c.is_ascii_digit()).collect();
    let words: Vec<&str> = s.split_whitespace().collect();
    words
        .iter()
        .filter(|w| w.chars().next().is_some_and(|c| c.is_ascii_lowercase() || c == '@' || w.contains('(')))
        .take(6)
        .cloned()
        .collect::<Vec<_>>()
        .join("_")
}

pub fn replay(case: &J) -> i32 {
    let files: Vec<String> = case["files"].as_array().unwrap_or(&vec![]).iter().map(|f| f.as_str().unwrap_or("").to_string()).collect();
    for (i, f) in files.iter().enumerate() {
        println!("--- file {i} ---\n{f}");
    }
    let mut whole = TsDoc::default();
    for f in &files {
        whole.defs.extend(parse_ts(f).map(|d| d.defs).unwrap_or_default());
    }
    println!("reference findings: {:?}", valid_ts::validate(&whole));
    match run_subject(&files) {
        Err(p) => println!("subject PANIC {} {}", p.site, p.msg),
        Ok(Ok(())) => println!("subject: accepted"),
        Ok(Err(d)) => println!("subject: rejected {:?}", d.iter().map(|x| format!("{}:{}", x.kind, x.msg)).collect::<Vec<_>>()),
    }
    let _ = TS_LOCATIONS;
    0
}
