//! R-SMAP — independent Source Map v3 `mappings` decoder (base64 VLQ, relative fields).

#[derive(Clone, Debug, PartialEq, Eq)]
pub struct Segment {
    pub gen_line: usize,
    pub gen_col: i128,
    /// (source index, original line, original column)
    pub src: Option<(i128, i128, i128)>,
    pub name: Option<i128>,
}

#[derive(Debug, Default)]
pub struct Decoded {
    pub segments: Vec<Segment>,
    /// number of empty segments (",," or a leading ","): tolerated as ECMA-426 does, but counted
    pub empty_segments: usize,
}

fn b64(c: u8) -> Option<u32> {
    Some(match c {
        b'A'..=b'Z' => (c - b'A') as u32,
        b'a'..=b'z' => (c - b'a') as u32 + 26,
        b'0'..=b'9' => (c - b'0') as u32 + 52,
        b'+' => 62,
        b'/' => 63,
        _ => return None,
    })
}

/// Decode all VLQ numbers of one segment.
pub fn decode_vlq_fields(seg: &str) -> Result<Vec<i128>, String> {
    let mut out = vec![];
    let mut shift = 0u32;
    let mut acc: u128 = 0;
    let mut in_number = false;
    for &c in seg.as_bytes() {
        let d = b64(c).ok_or_else(|| format!("invalid base64 character {:?}", c as char))?;
        let cont = d & 32 != 0;
        let digit = (d & 31) as u128;
        if shift >= 120 {
            return Err("VLQ number too long".into());
        }
        acc |= digit << shift;
        shift += 5;
        in_number = true;
        if !cont {
            let neg = acc & 1 == 1;
            let mag = (acc >> 1) as i128;
            // "-0" is how 2^k boundary MIN values may be written; treat magnitude 0 with sign as 0
            out.push(if neg { -mag } else { mag });
            acc = 0;
            shift = 0;
            in_number = false;
        }
    }
    if in_number {
        return Err("VLQ number not terminated (continuation bit on last digit)".into());
    }
    Ok(out)
}

pub fn decode_mappings(m: &str) -> Result<Decoded, String> {
    let mut d = Decoded::default();
    let (mut src, mut ol, mut oc, mut name) = (0i128, 0i128, 0i128, 0i128);
    for (line_no, line) in m.split(';').enumerate() {
        let mut gc: i128 = 0;
        if line.is_empty() {
            continue;
        }
        for seg in line.split(',') {
            if seg.is_empty() {
                d.empty_segments += 1;
                continue;
            }
            let f = decode_vlq_fields(seg).map_err(|e| format!("line {line_no} segment {seg:?}: {e}"))?;
            match f.len() {
                1 | 4 | 5 => {}
                n => return Err(format!("line {line_no} segment {seg:?} has {n} fields")),
            }
            gc += f[0];
            let mut s = Segment {
                gen_line: line_no,
                gen_col: gc,
                src: None,
                name: None,
            };
            if f.len() >= 4 {
                src += f[1];
                ol += f[2];
                oc += f[3];
                s.src = Some((src, ol, oc));
            }
            if f.len() == 5 {
                name += f[4];
                s.name = Some(name);
            }
            d.segments.push(s);
        }
    }
    Ok(d)
}

pub fn utf16_len(s: &str) -> usize {
    s.chars().map(|c| c.len_utf16()).sum()
}
