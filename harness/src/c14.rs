//! C14 — declared exports match what the bundler loader exports at runtime.
//!
//! Full product of the naming/export options x operation files; the configuration is given as
//! *text* to both sides (parse_config -> printer options for the declaration file; the loader's
//! load_config for the JavaScript module, through the real ABI in a worker).

use crate::c03::subject_schema;
use crate::c12::{const_documents, gjs_document};
use crate::explore::par_for;
use crate::gql::*;
use crate::pipeline;
use crate::report::{Args as RunArgs, Reporter, Violation};
use crate::rts::{Decl, parse_module};
use crate::util::catch;
use serde_json::{Value as J, json};
use std::collections::BTreeMap;
use std::path::PathBuf;
use std::sync::Mutex;
use std::sync::atomic::{AtomicU64, Ordering};

const AUX_FILE: (&str, &str) = ("other", "fragment Other on User { name }\n");
const FILES: [(&str, &str); 17] = [
    ("one-query", "query getUser { u { id } }\n"),
    ("two-operations", "query getUser { u { id } }\nmutation setIt { ping }\n"),
    ("query-and-fragment", "query getUser { u { ...userBits } }\nfragment userBits on User { id name }\n"),
    ("fragment-only", "fragment userBits on User { id name }\nfragment More on User { age ...userBits }\n"),
    ("anonymous", "query { s }\n"),
    ("subscription", "subscription onTick { tick }\n"),
    ("mutation-and-fragment", "mutation setIt { set(input: {req: true}) { ...userBits } }\nfragment userBits on User { id }\n"),
    ("capitalised-names", "query GetUser { u { id } }\nfragment UserBits on User { id }\n"),
    ("all-kinds", "query q1 { s }\nmutation m1 { ping }\nsubscription s1 { tick }\nfragment f1 on User { id }\n"),
    // names that already end with a configured (or the default) suffix
    ("names-ending-with-suffixes", "query getUserDoc { u { ...userDoc ...UserFragment } }\nfragment userDoc on User { id }\nfragment UserFragment on User { name }\n"),
    // an operation and a fragment sharing a name (two namespaces), with and without an `#import` in the file
    ("same-name-fragment-first", "fragment Post on User { id }\nquery Post { u { ...Post } }\n"),
    ("same-name-with-import", "#import Other from \"./other.graphql\"\nfragment Post on User { id }\nquery Post { u { ...Post ...Other } }\n"),
    ("same-name-operation-first-with-import", "#import Other from \"./other.graphql\"\nmutation Post { set(input: {req: true}) { ...Post ...Other } }\nfragment Post on User { id }\n"),
    ("import-only", "#import * from \"./other.graphql\"\nquery withImport { u { ...Other } }\n"),
    // fragment names that are reserved words of the generated language, or the names the declaration file imports
    ("fragment-named-like-a-reserved-word", "query getUser { u { ...delete } }\nfragment delete on User { id }\n"),
    ("fragment-named-like-an-import", "query getUser { u { ...Schema ...TypedDocumentNode } }\nfragment Schema on User { id }\nfragment TypedDocumentNode on User { name }\n"),
    ("operation-names-ending-with-kind", "query userQuery { u { id } }\nmutation pingMutation { ping }\nsubscription tickSubscription { tick }\n"),
];

#[derive(Clone, Debug)]
struct Opts {
    default_export: Option<bool>,
    capitalize: Option<bool>,
    suffix: [Option<&'static str>; 4], // query, mutation, subscription, fragment
    result_type: Option<bool>,
    variables_type: Option<bool>,
    mode: &'static str,
    type_suffixes: bool,
}

fn yaml(o: &Opts) -> String {
    let mut s = String::from("schema: ./schema/*.graphql\ndocuments: ./src/*.graphql\nextensions:\n  nitrogql:\n    generate:\n");
    s.push_str(&format!("      mode: {}\n      schemaOutput: ./src/schema.d.ts\n      type:\n        scalarTypes:\n          Date: string\n", o.mode));
    let mut name = String::new();
    if let Some(c) = o.capitalize {
        name.push_str(&format!("        capitalizeOperationNames: {c}\n"));
    }
    for (k, v) in ["queryVariableSuffix", "mutationVariableSuffix", "subscriptionVariableSuffix", "fragmentVariableSuffix"].iter().zip(o.suffix.iter()) {
        if let Some(v) = v {
            name.push_str(&format!("        {k}: \"{v}\"\n"));
        }
    }
    if o.type_suffixes {
        name.push_str("        operationResultTypeSuffix: \"Res\"\n        variablesTypeSuffix: \"Vars\"\n        fragmentTypeSuffix: \"Frag\"\n");
    }
    if !name.is_empty() {
        s.push_str("      name:\n");
        s.push_str(&name);
    }
    let mut exp = String::new();
    if let Some(b) = o.default_export {
        exp.push_str(&format!("        defaultExportForOperation: {b}\n"));
    }
    if let Some(b) = o.result_type {
        exp.push_str(&format!("        operationResultType: {b}\n"));
    }
    if let Some(b) = o.variables_type {
        exp.push_str(&format!("        variablesType: {b}\n"));
    }
    if !exp.is_empty() {
        s.push_str("      export:\n");
        s.push_str(&exp);
    }
    s
}

fn all_opts(quick: bool) -> Vec<Opts> {
    let mut out = vec![];
    let sfx: [Option<&'static str>; 3] = [None, Some("Doc"), Some("")];
    for default_export in [None, Some(true), Some(false)] {
        for capitalize in [None, Some(true), Some(false)] {
            for q in sfx {
                for m in sfx {
                    for su in sfx {
                        for f in sfx {
                            for (result_type, variables_type) in [(None, None), (Some(true), Some(true)), (Some(true), Some(false))] {
                                for mode in ["with-loader-ts-5.0", "with-loader-ts-4.0", "standalone-ts-4.0"] {
                                    for type_suffixes in [false, true] {
                                        if quick && (mode != "with-loader-ts-5.0" || type_suffixes) && !(q.is_none() && m.is_none() && su.is_none() && f.is_none()) {
                                            // quick: the secondary mode / type suffixes only with default variable suffixes
                                            continue;
                                        }
                                        out.push(Opts { default_export, capitalize, suffix: [q, m, su, f], result_type, variables_type, mode, type_suffixes });
                                    }
                                }
                            }
                        }
                    }
                }
            }
        }
    }
    out
}

/// (exported name -> local const name), in a module text
fn value_exports(text: &str) -> Result<(BTreeMap<String, String>, Vec<String>), String> {
    let decls = parse_module(text)?;
    // a declaration named like something the module imports is a duplicate identifier
    let imported: Vec<&String> = decls.iter().flat_map(|d| match d {
        Decl::ImportNs { alias, .. } => vec![alias],
        Decl::ImportNamed { names, .. } => names.iter().collect(),
        _ => vec![],
    }).collect();
    for d in &decls {
        let n = match d {
            Decl::Const { name, .. } | Decl::Type { name, .. } => name,
            _ => continue,
        };
        if imported.contains(&n) {
            return Err(format!("declaration `{n}` conflicts with an import of the same name"));
        }
    }
    let mut exports = BTreeMap::new();
    let mut consts = vec![];
    for d in &decls {
        match d {
            Decl::Const { name, exported, .. } => {
                consts.push(name.clone());
                if *exported {
                    exports.insert(name.clone(), name.clone());
                }
            }
            Decl::ExportAs { local, exported, type_only: false } => {
                exports.insert(exported.clone(), local.clone());
            }
            _ => {}
        }
    }
    Ok((exports, consts))
}

fn def_id(d: &ExecDef) -> String {
    match d {
        ExecDef::Op { kind, name, .. } => format!("{} {}", kind.kw(), name.as_ref().map_or("<anonymous>", |n| n.s.as_str())),
        ExecDef::Frag { name, .. } => format!("fragment {}", name.s),
        _ => "import".into(),
    }
}

pub fn run(args: &RunArgs) -> i32 {
    let rep = Reporter::new("C14", &args.tier);
    crate::util::install_hook();
    let s = subject_schema();
    let opts = all_opts(args.quick());
    let pool = crate::worker::Pool::new("c12-loader", args.threads);
    let pairs = AtomicU64::new(0);
    let cli_runs = AtomicU64::new(0);
    let cli_decls_checked = AtomicU64::new(0);
    let cli_decls_identical = AtomicU64::new(0);
    let exports_compared = AtomicU64::new(0);
    let outcomes: Mutex<BTreeMap<String, u64>> = Mutex::new(BTreeMap::new());
    let slot_ctr = std::sync::atomic::AtomicUsize::new(0);
    thread_local! { static SLOT: std::cell::Cell<usize> = const { std::cell::Cell::new(usize::MAX) }; }
    par_for(opts.len(), args.threads, |oi| {
        let o = &opts[oi];
        let cfg_text = yaml(o);
        let my = SLOT.with(|x| {
            if x.get() == usize::MAX {
                x.set(slot_ctr.fetch_add(1, Ordering::Relaxed));
            }
            x.get()
        });
        // the declaration files as the CLI writes them for this configuration (one run, all files)
        let ext = match o.mode {
            "with-loader-ts-5.0" => "d.graphql.ts",
            "with-loader-ts-4.0" => "graphql.d.ts",
            _ => "graphql.ts",
        };
        let cli_decls: BTreeMap<String, String> = {
            let dir = crate::cli::thread_dir("c14");
            let mut p = crate::cli::Project::default();
            p.files.insert("graphql.config.yaml".into(), cfg_text.clone());
            p.files.insert("schema/schema.graphql".into(), s.text.clone());
            for (fname, ftext) in FILES {
                p.files.insert(format!("src/{fname}.graphql"), ftext.to_string());
            }
            p.files.insert(format!("src/{}.graphql", AUX_FILE.0), AUX_FILE.1.to_string());
            crate::cli::materialize(&dir, &p);
            // the command line may repeat what the configuration file says (arguments override single settings of
            // the file; everything else of the file stays in force): one of four forms per configuration
            let mut a: Vec<String> = ["--config-file", "graphql.config.yaml", "--output-format", "json"].iter().map(|x| x.to_string()).collect();
            match oi % 4 {
                1 => a.extend(["--schema-output".to_string(), "./src/schema.d.ts".to_string()]),
                2 => a.extend(["--schema".to_string(), "./schema/*.graphql".to_string()]),
                3 => a.extend(["--operation".to_string(), "./src/*.graphql".to_string()]),
                _ => {}
            }
            a.push("generate".to_string());
            let r = crate::cli::run(&dir, &a, &[], std::time::Duration::from_secs(60));
            cli_runs.fetch_add(1, Ordering::Relaxed);
            if r.code != Some(0) {
                rep.report(Violation { key: "cli.generate_fails".into(), what: format!("`generate` exits with {:?} on the project of all operation files: {}", r.code, r.stdout.chars().take(600).collect::<String>()), case: json!({"config": cfg_text, "files": p.files}) });
            }
            FILES.iter().filter_map(|(fname, _)| r.after.get(&format!("src/{fname}.{ext}")).map(|b| (fname.to_string(), String::from_utf8_lossy(b).to_string()))).collect()
        };
        // a second module of the same build: its task is live while each file's task is created, emitted and freed, and
        // while a further task for the same file is created (one loader instance, tasks interleaved as a bundler with
        // two modules in flight does); alone, it gives the module the interleaved runs are compared with
        let partner: Vec<J> = vec![json!(["/p/partner.graphql", "#import Other from \"./other.graphql\"\nquery partnerQuery { u { ...Other } }\n"]), json!([format!("/p/{}.graphql", AUX_FILE.0), AUX_FILE.1])];
        let partner_alone: Option<String> = match pool.ask(my, &json!({"text": "", "files": partner, "config": cfg_text})) {
            crate::worker::Answer::Done(v) => v["js"].as_str().map(|s| s.to_string()),
            _ => None,
        };
        if partner_alone.is_none() {
            rep.report(Violation { key: "loader_error[partner-module]".into(), what: "the loader fails on the partner module".into(), case: json!({"config": cfg_text, "files": partner}) });
        }
        for (fname, ftext) in FILES {
            pairs.fetch_add(1, Ordering::Relaxed);
            let case = |extra: J| json!({"config": cfg_text, "file": fname, "text": ftext, "detail": extra});
            let tag = || {
                // which options deviate from their defaults (for narrow keys)
                let mut t = vec![];
                if o.default_export == Some(false) {
                    t.push("defaultExport=false".to_string());
                }
                if let Some(c) = o.capitalize {
                    t.push(format!("capitalize={c}"));
                }
                for (k, v) in ["q", "m", "s", "f"].iter().zip(o.suffix.iter()) {
                    if let Some(v) = v {
                        t.push(format!("{k}Suffix={v:?}"));
                    }
                }
                t.join(",")
            };
            // declaration side
            let Some(cfg) = nitrogql_config_file::parse_config(&cfg_text) else {
                rep.report(Violation { key: "machinery.config".into(), what: "parse_config rejected the generated config".into(), case: case(json!({})) });
                continue;
            };
            let mut ops = vec![(PathBuf::from("/p/a.graphql"), ftext.to_string())];
            if ftext.contains("#import") {
                ops.push((PathBuf::from(format!("/p/{}.graphql", AUX_FILE.0)), AUX_FILE.1.to_string()));
            }
            let dts = catch(|| {
                let loaded = pipeline::load_operations(&ops, 1).map_err(|f| format!("{:?}", f.diags))?;
                pipeline::check_operations(&s.schema, &loaded).map_err(|f| format!("rejected {:?}", f.diags.iter().map(|d| d.msg.clone()).collect::<Vec<_>>()))?;
                Ok::<_, String>(pipeline::operation_dts(&s.schema, &loaded[0].1, &cfg, "./schema.js").buffer)
            });
            let dts = match dts {
                Err(p) => {
                    rep.report(Violation { key: format!("panic@{}", p.key()), what: format!("panic at {}: {}", p.site, p.msg), case: case(json!({})) });
                    continue;
                }
                Ok(Err(e)) => {
                    rep.report(Violation { key: "machinery.file_rejected".into(), what: e, case: case(json!({})) });
                    continue;
                }
                Ok(Ok(d)) => d,
            };
            // loader side, same config text
            let loader_files: Vec<J> = ops.iter().map(|(p, t)| json!([p.to_string_lossy(), t])).collect();
            let js = match pool.ask(my, &json!({"text": ftext, "files": loader_files, "other_files": partner, "config": cfg_text})) {
                crate::worker::Answer::Done(v) => match v["js"].as_str() {
                    Some(j) => {
                        if v["again_js"].as_str() != Some(j) {
                            rep.report(Violation { key: "loader.second_task_for_the_file_differs".into(), what: "a second task for the same file, created after the first was freed and while another module's task was live, emits a different module".into(), case: case(json!({"first": j, "again": v["again_js"]})) });
                        }
                        if partner_alone.is_some() && v["other_js"].as_str() != partner_alone.as_deref() {
                            rep.report(Violation { key: "loader.interleaved_module_differs".into(), what: "the module of another file whose task was live meanwhile differs from the module that file gets alone: the loader answered for the wrong file".into(), case: case(json!({"interleaved": v["other_js"], "alone": partner_alone})) });
                        }
                        j.to_string()
                    }
                    None => {
                        rep.report(Violation { key: "loader_error".into(), what: format!("loader failed: {v}"), case: case(json!({})) });
                        continue;
                    }
                },
                crate::worker::Answer::Died { panic, status } => {
                    rep.report(Violation { key: "loader_trap".into(), what: format!("loader died: {panic:?} {status}"), case: case(json!({})) });
                    continue;
                }
            };
            let check_decl = |label: &str, dts: &str| {
                let (dexp, dconsts) = match value_exports(dts) {
                    Ok(x) => x,
                    Err(e) => {
                        let cause = if fname == "anonymous" && o.suffix[0] == Some("") {
                            "anonymous-operation-with-empty-variable-suffix".to_string()
                        } else if e.contains("reserved word") || e.contains("conflicts with an import") {
                            // which suffix makes the name harmless is the configuration's doing: one cause per file and declaration source
                            format!("{fname}:{}", e.split('`').nth(1).unwrap_or(""))
                        } else {
                            format!("{fname}:{}", tag())
                        };
                        rep.report(Violation { key: format!("unreadable:declaration[{cause}]"), what: format!("the declaration file is not well-formed: {e}"), case: case(json!({"dts": dts, "declaration_from": label})) });
                        return;
                    }
                };
                let (jexp, _) = match value_exports(&js) {
                    Ok(x) => x,
                    Err(e) => {
                        rep.report(Violation { key: "unreadable:javascript".into(), what: e, case: case(json!({"js": js})) });
                        return;
                    }
                };
                // a configuration that gives two definitions of the file the same constant name (an operation and a fragment
                // called alike, both suffixes empty) leaves "the same name" without meaning: outside the property
                {
                    let mut seen = std::collections::BTreeSet::new();
                    if dconsts.iter().any(|c| !seen.insert(c.clone())) {
                        *outcomes.lock().unwrap().entry("skipped: two definitions share one constant name under this configuration".to_string()).or_insert(0) += 1;
                        return;
                    }
                }
                let jdocs: BTreeMap<String, J> = const_documents(&js).unwrap_or_default().into_iter().map(|(n, v, _)| (n, v)).collect();
                let mut src = crate::rparse::parse_exec(ftext).unwrap();
            src.defs.retain(|d| !matches!(d, ExecDef::Import { .. }));
                *outcomes.lock().unwrap().entry(format!("{} value exports", dexp.len())).or_insert(0) += 1;
                for (ename, dlocal) in &dexp {
                    exports_compared.fetch_add(1, Ordering::Relaxed);
                    let kind_of_export = if ename == "default" { "default" } else { "named" };
                    let Some(jlocal) = jexp.get(ename) else {
                        rep.report(Violation {
                            key: format!("declared_export_missing_at_runtime:{kind_of_export}[{}]", tag()),
                            what: format!("{fname}: the declaration file exports {ename:?} but the loader's module exports {:?}", jexp.keys().collect::<Vec<_>>()),
                            case: case(json!({"dts": dts, "js": js, "declaration_from": label})),
                        });
                        return;
                    };
                    // which source definition does the declared constant stand for? (declaration order = source order)
                    let Some(di) = dconsts.iter().position(|c| c == dlocal) else { continue };
                    let want = def_id(&src.defs[di]);
                    let got = jdocs.get(jlocal).and_then(|v| gjs_document(v).ok()).and_then(|d| d.defs.first().map(def_id));
                    if got.as_deref() != Some(want.as_str()) {
                        rep.report(Violation {
                            key: format!("export_carries_other_document:{kind_of_export}[{}]", tag()),
                            what: format!("{fname}: export {ename:?} is declared for `{want}` but at runtime carries {got:?}"),
                            case: case(json!({"dts": dts, "js": js, "declaration_from": label})),
                        });
                    }
                }
            };
            check_decl("library", &dts);
            // the file the CLI wrote for the same configuration: the library text plus the source map comment,
            // or else a declaration of its own that is judged the same way
            match cli_decls.get(fname) {
                None => rep.report(Violation { key: "cli.declaration_file_missing".into(), what: format!("the CLI wrote no src/{fname}.{ext}"), case: case(json!({})) }),
                Some(t) => {
                    cli_decls_checked.fetch_add(1, Ordering::Relaxed);
                    let same = t.strip_prefix(dts.as_str()).is_some_and(|rest| rest.trim().lines().all(|l| l.starts_with("//# sourceMappingURL=")));
                    if same {
                        cli_decls_identical.fetch_add(1, Ordering::Relaxed);
                    } else {
                        check_decl("cli", t);
                    }
                }
            }
        }
    });
    let n = pairs.load(Ordering::Relaxed);
    let cov = json!({
        "states": n,
        "transitions": n * 2,
        "traces_validated_against_impl": exports_compared.load(Ordering::Relaxed),
        "evaluations": n,
        "distinct_nontrivial": exports_compared.load(Ordering::Relaxed),
        "rule": "full product of export/name options and generate modes (as YAML text) x 11 operation files; distinct by construction; non-trivial = a declared value export that was looked up in the loader's module and whose embedded document was identified",
        "exhaustive": true,
        "configurations": opts.len(),
        "files": FILES.len(),
        "pairs": n,
        "value_exports_compared": exports_compared.load(Ordering::Relaxed),
        "cli_runs(one per configuration, all files)": cli_runs.load(Ordering::Relaxed),
        "cli_declaration_files_checked": cli_decls_checked.load(Ordering::Relaxed),
        "cli_declaration_files_identical_to_the_library_text": cli_decls_identical.load(Ordering::Relaxed),
        "histogram": *outcomes.lock().unwrap(),
        "samples": [{"config": yaml(&opts[opts.len() / 2]), "file": FILES[2].1}],
    });
    rep.finish(cov, vec!["both sides receive the same configuration text; the loader side runs through the real extern \"C\" ABI (load_config, initiate_task, emit_js)".into(), "the i-th declared constant stands for the i-th definition of the file".into(), "the declaration side is judged twice: as the printer gives it for the parsed configuration, and as `nitrogql-cli generate` writes it into the project (a CLI file that is the library text plus the source map comment is not judged again)".into()])
}

pub fn replay(case: &J) -> i32 {
    println!("--- config ---\n{}\n--- file ---\n{}\n{}", case["config"].as_str().unwrap_or(""), case["text"].as_str().unwrap_or(""), serde_json::to_string_pretty(&case["detail"]).unwrap_or_default().replace("\\n", "\n"));
    0
}
