//! R-VALID-OP — GraphQL (October 2021) §5 validation of executable documents, written from
//! the specification. Every finding carries the label of the rule it violates.

use crate::gql::*;
use crate::schema::Sch;
use std::collections::{BTreeMap, BTreeSet};

#[derive(Clone, Debug, PartialEq, Eq, PartialOrd, Ord)]
pub struct Finding {
    pub rule: &'static str,
    pub detail: String,
}

pub struct V<'a> {
    pub sch: &'a Sch,
    pub doc: &'a ExecDoc,
    pub out: Vec<Finding>,
    frags: BTreeMap<String, &'a ExecDef>,
    /// nesting of merge_check: a fragment cycle that runs through a field (`fragment F on User { best { ...F } }`, reported
    /// by the cycle rule) would make the pairwise descent endless
    merge_depth: usize,
}

fn f(rule: &'static str, detail: String) -> Finding {
    Finding { rule, detail }
}

pub fn validate(sch: &Sch, doc: &ExecDoc) -> Vec<Finding> {
    let mut v = V {
        sch,
        doc,
        out: vec![],
        frags: BTreeMap::new(),
        merge_depth: 0,
    };
    v.run();
    let mut out = v.out;
    out.sort();
    out.dedup();
    out
}

pub fn rules(findings: &[Finding]) -> BTreeSet<&'static str> {
    findings.iter().map(|f| f.rule).collect()
}

impl<'a> V<'a> {
    fn run(&mut self) {
        let doc = self.doc;
        // 5.2.1.1 / 5.2.2.1 / 5.5.1.1
        let mut op_names: BTreeMap<&str, usize> = BTreeMap::new();
        let mut anon = 0;
        let mut nops = 0;
        for d in &doc.defs {
            match d {
                ExecDef::Op { name, .. } => {
                    nops += 1;
                    match name {
                        Some(n) => *op_names.entry(n.s.as_str()).or_insert(0) += 1,
                        None => anon += 1,
                    }
                }
                ExecDef::Frag { name, .. } => {
                    if self.frags.contains_key(&name.s) {
                        self.out.push(f("frag.unique_name", name.s.clone()));
                    } else {
                        self.frags.insert(name.s.clone(), d);
                    }
                }
                ExecDef::Import { .. } => {}
            }
        }
        for (n, c) in op_names {
            if c > 1 {
                self.out.push(f("op.unique_name", n.to_string()));
            }
        }
        if anon > 0 && nops > 1 {
            self.out.push(f("op.lone_anonymous", String::new()));
        }
        // fragment definitions
        let mut used_frags: BTreeSet<String> = BTreeSet::new();
        for d in &doc.defs {
            if let ExecDef::Frag { name, cond, dirs, sel, .. } = d {
                self.directives(dirs, "FRAGMENT_DEFINITION", None);
                match self.sch.kind(&cond.s) {
                    None => self.out.push(f("frag.type_exists", cond.s.clone())),
                    Some(_) if !self.sch.is_composite(&cond.s) => self.out.push(f("frag.composite", cond.s.clone())),
                    Some(_) => {
                        // the body is validated in every operation context that reaches it (variables),
                        // and once without a context so that unreachable fragments are validated too
                        self.selset(sel, &cond.s, None, &mut vec![name.s.clone()]);
                    }
                }
            }
        }
        // cycles
        for name in self.frags.keys().cloned().collect::<Vec<_>>() {
            let mut path = vec![];
            if self.cycle_from(&name, &name, &mut path, &mut BTreeSet::new()) {
                self.out.push(f("spread.cycle", name));
            }
        }
        for d in &doc.defs {
            if let ExecDef::Op { kind, vars, dirs, sel, .. } = d {
                let loc = match kind {
                    OpKind::Query => "QUERY",
                    OpKind::Mutation => "MUTATION",
                    OpKind::Subscription => "SUBSCRIPTION",
                };
                let vdefs: Vec<VarDef> = vars.as_ref().map(|v| v.1.clone()).unwrap_or_default();
                // 5.8.1 / 5.8.2
                let mut seen = BTreeSet::new();
                for v in &vdefs {
                    if !seen.insert(v.name.s.clone()) {
                        self.out.push(f("var.unique", v.name.s.clone()));
                    }
                    match self.sch.kind(v.ty.base()) {
                        None => self.out.push(f("var.input_type", format!("unknown type {}", v.ty.base()))),
                        Some(_) if !self.sch.is_input_type(v.ty.base()) => self.out.push(f("var.input_type", v.ty.base().to_string())),
                        Some(_) => {
                            if let Some(d) = &v.default {
                                // default values must be of the variable's type (5.6.1); nitrogql does not implement this
                                self.value(d, &v.ty, None, "var.default_type");
                            }
                        }
                    }
                    self.directives(&v.dirs, "VARIABLE_DEFINITION", None);
                }
                let ctx = Ctx { vars: &vdefs, used: std::cell::RefCell::new(BTreeSet::new()) };
                self.directives(dirs, loc, Some(&ctx));
                match self.sch.root(*kind) {
                    None => self.out.push(f("op.root_type", format!("{kind:?}"))),
                    Some(root) => {
                        let mut stack = vec![];
                        self.selset_used(sel, &root, Some(&ctx), &mut stack, &mut used_frags);
                        if *kind == OpKind::Subscription {
                            // 5.2.3.1: exactly one root field after collecting fields (fragments expanded); no introspection field
                            let mut keys = BTreeSet::new();
                            let mut typename = false;
                            self.collect_root_keys(sel, &root, &mut keys, &mut typename, &mut BTreeSet::new());
                            if keys.len() != 1 {
                                self.out.push(f("sub.single_root", format!("{keys:?}")));
                            } else if typename {
                                // the root field must not be an introspection field: part of the same spec
                                // rule, but not of "single root field" as the property statement words it
                                self.out.push(f("sub.introspection_root", format!("{keys:?}")));
                            }
                        }
                        // 5.3.2 field merging (not implemented by nitrogql; used to filter inputs)
                        self.merge_check(sel, &root);
                    }
                }
                for v in &vdefs {
                    if !ctx.used.borrow().contains(&v.name.s) {
                        self.out.push(f("var.unused", v.name.s.clone()));
                    }
                }
            }
        }
        for name in self.frags.keys() {
            if !used_frags.contains(name) {
                self.out.push(f("frag.unused", name.clone()));
            }
        }
        for d in &doc.defs {
            if let ExecDef::Frag { cond, sel, .. } = d
                && self.sch.is_composite(&cond.s)
            {
                self.merge_check(sel, &cond.s);
            }
        }
    }

    fn cycle_from(&self, start: &str, cur: &str, _path: &mut Vec<String>, seen: &mut BTreeSet<String>) -> bool {
        let Some(ExecDef::Frag { sel, .. }) = self.frags.get(cur) else { return false };
        let mut spreads = vec![];
        collect_spreads(sel, &mut spreads);
        for s in spreads {
            if s == start {
                return true;
            }
            if seen.insert(s.clone()) && self.cycle_from(start, &s, _path, seen) {
                return true;
            }
        }
        false
    }

    fn collect_root_keys(&self, sel: &SelSet, ty: &str, keys: &mut BTreeSet<String>, typename: &mut bool, seen: &mut BTreeSet<String>) {
        for s in &sel.items {
            match s {
                Sel::Field { alias, name, .. } => {
                    if name.s.starts_with("__") {
                        *typename = true;
                    }
                    keys.insert(alias.as_ref().unwrap_or(name).s.clone());
                }
                Sel::Inline { sel, .. } => self.collect_root_keys(sel, ty, keys, typename, seen),
                Sel::Spread { name, .. } => {
                    if seen.insert(name.s.clone())
                        && let Some(ExecDef::Frag { sel, .. }) = self.frags.get(&name.s)
                    {
                        self.collect_root_keys(sel, ty, keys, typename, seen);
                    }
                }
            }
        }
    }

    fn selset_used(&mut self, sel: &SelSet, ty: &str, ctx: Option<&Ctx>, stack: &mut Vec<String>, used: &mut BTreeSet<String>) {
        // like selset(), but follows spreads (to validate fragment bodies in this operation's variable context)
        self.selset_inner(sel, ty, ctx, stack, Some(used));
    }
    fn selset(&mut self, sel: &SelSet, ty: &str, ctx: Option<&Ctx>, stack: &mut Vec<String>) {
        self.selset_inner(sel, ty, ctx, stack, None);
    }

    /// Validates one selection set against composite type `ty`.
    /// `follow`: Some => spreads are followed (operation context); None => fragment body on its own.
    fn selset_inner(&mut self, sel: &SelSet, ty: &str, ctx: Option<&Ctx>, stack: &mut Vec<String>, mut follow: Option<&mut BTreeSet<String>>) {
        for s in &sel.items {
            match s {
                Sel::Field { name, args, dirs, sel: sub, .. } => {
                    self.directives(dirs, "FIELD", ctx);
                    if name.s == "__typename" {
                        if args.is_some() {
                            self.out.push(f("arg.known", "__typename takes no arguments".into()));
                        }
                        if sub.is_some() {
                            self.out.push(f("field.leaf", "__typename".into()));
                        }
                        continue;
                    }
                    // introspection root fields are not modelled; the generators never emit them
                    let Some(fd) = self.sch.field(ty, &name.s).cloned() else {
                        self.out.push(f("field.exists", format!("{}.{}", ty, name.s)));
                        continue;
                    };
                    self.arguments(args, fd.args.as_deref().unwrap_or(&[]), ctx, "field");
                    let base = fd.ty.base().to_string();
                    match (self.sch.is_leaf(&base), sub) {
                        (true, Some(_)) => self.out.push(f("field.leaf", format!("{}.{}", ty, name.s))),
                        (false, None) => self.out.push(f("field.composite", format!("{}.{}", ty, name.s))),
                        (false, Some(sub)) => {
                            if self.sch.is_composite(&base) {
                                self.selset_inner(sub, &base, ctx, stack, follow.as_deref_mut());
                            }
                        }
                        (true, None) => {}
                    }
                }
                Sel::Inline { cond, dirs, sel: sub, .. } => {
                    self.directives(dirs, "INLINE_FRAGMENT", ctx);
                    let target = match cond {
                        None => ty.to_string(),
                        Some(c) => {
                            match self.sch.kind(&c.s) {
                                None => {
                                    self.out.push(f("frag.type_exists", c.s.clone()));
                                    continue;
                                }
                                Some(_) if !self.sch.is_composite(&c.s) => {
                                    self.out.push(f("frag.composite", c.s.clone()));
                                    continue;
                                }
                                Some(_) => {}
                            }
                            if !self.overlap(ty, &c.s) {
                                self.out.push(f("spread.possible", format!("... on {} inside {}", c.s, ty)));
                            }
                            c.s.clone()
                        }
                    };
                    self.selset_inner(sub, &target, ctx, stack, follow.as_deref_mut());
                }
                Sel::Spread { name, dirs, .. } => {
                    self.directives(dirs, "FRAGMENT_SPREAD", ctx);
                    let Some(ExecDef::Frag { cond, sel: fsel, dirs: fdirs, .. }) = self.frags.get(&name.s).copied() else {
                        self.out.push(f("spread.defined", name.s.clone()));
                        continue;
                    };
                    if self.sch.is_composite(&cond.s) && !self.overlap(ty, &cond.s) {
                        self.out.push(f("spread.possible", format!("...{} (on {}) inside {}", name.s, cond.s, ty)));
                    }
                    if let Some(used) = follow.as_deref_mut() {
                        used.insert(name.s.clone());
                        if !stack.contains(&name.s) && self.sch.is_composite(&cond.s) {
                            stack.push(name.s.clone());
                            let cond_s = cond.s.clone();
                            // variables in the directives of the fragment definition belong to the
                            // operations that reach it (5.8.3 / 5.8.4 are per operation)
                            if ctx.is_some() {
                                self.directives(fdirs, "FRAGMENT_DEFINITION", ctx);
                            }
                            self.selset_inner(fsel, &cond_s, ctx, stack, Some(used));
                            stack.pop();
                        }
                    }
                }
            }
        }
    }

    fn overlap(&self, a: &str, b: &str) -> bool {
        let pa = self.sch.possible_types(a);
        let pb = self.sch.possible_types(b);
        pa.iter().any(|x| pb.contains(x))
    }

    fn directives(&mut self, dirs: &[Dir], location: &str, ctx: Option<&Ctx>) {
        let mut seen: BTreeSet<&str> = BTreeSet::new();
        for d in dirs {
            let Some(def) = self.sch.directives.get(&d.name.s).cloned() else {
                self.out.push(f("dir.defined", d.name.s.clone()));
                continue;
            };
            if !def.locations.iter().any(|l| l.s == location) {
                self.out.push(f("dir.location", format!("@{} at {}", d.name.s, location)));
            }
            if !seen.insert(d.name.s.as_str()) && !def.repeatable {
                self.out.push(f("dir.unique", d.name.s.clone()));
            }
            self.arguments(&d.args, def.dir_args.as_deref().unwrap_or(&[]), ctx, "directive");
        }
    }

    fn arguments(&mut self, args: &Option<Args>, defs: &[InputValueDef], ctx: Option<&Ctx>, _what: &str) {
        let empty = vec![];
        let items = args.as_ref().map_or(&empty, |a| &a.items);
        let mut seen = BTreeSet::new();
        for (k, v) in items {
            if !seen.insert(k.s.as_str()) {
                self.out.push(f("arg.unique", k.s.clone()));
            }
            match defs.iter().find(|d| d.name.s == k.s) {
                None => self.out.push(f("arg.known", k.s.clone())),
                Some(d) => self.value(v, &d.ty, ctx.map(|c| (c, d.default.is_some())), "value.type"),
            }
        }
        for d in defs {
            if d.ty.is_nonnull() && d.default.is_none() {
                match items.iter().find(|(k, _)| k.s == d.name.s) {
                    None => self.out.push(f("arg.required", d.name.s.clone())),
                    Some((_, Value::Null(_))) => {} // reported by value()
                    _ => {}
                }
            }
        }
    }

    /// 5.6.1 values of correct type + 5.8.3/5.8.5 for variables. `ctx`: (operation context, location has default).
    fn value(&mut self, v: &Value, ty: &Ty, ctx: Option<(&Ctx, bool)>, rule: &'static str) {
        if let Value::Var(_, name) = v {
            let Some((c, loc_default)) = ctx else {
                // fragment body validated without an operation: variable rules are checked per operation
                return;
            };
            c.used.borrow_mut().insert(name.clone());
            match c.vars.iter().find(|d| d.name.s == *name) {
                None => self.out.push(f("var.defined", name.clone())),
                Some(d) => {
                    if self.sch.kind(d.ty.base()).is_some() && self.sch.is_input_type(d.ty.base()) && !var_usage_allowed(&d.ty, d.default.as_ref(), ty, loc_default) {
                        self.out.push(f("var.usage", format!("${name}: {} used as {}", d.ty.show(), ty.show())));
                    }
                }
            }
            return;
        }
        match ty {
            Ty::NonNull(inner) => {
                if matches!(v, Value::Null(_)) {
                    self.out.push(f(rule, format!("null for {}", ty.show())));
                } else {
                    self.value(v, inner, ctx.map(|(c, _)| (c, false)), rule);
                }
            }
            _ if matches!(v, Value::Null(_)) => {}
            Ty::List(_, item) => match v {
                Value::List(_, xs) => {
                    for x in xs {
                        self.value(x, item, ctx.map(|(c, _)| (c, false)), rule);
                    }
                }
                // input coercion: a single value is coerced to a list of one item
                // (a variable in that position must itself be of the list type, handled above)
                other => self.value(other, item, ctx.map(|(c, _)| (c, false)), rule),
            },
            Ty::Named(n) => {
                let Some(def) = self.sch.types.get(&n.s).cloned() else {
                    return; // unknown type: the schema validator's business
                };
                match def.kind {
                    TsKind::Scalar => {
                        let ok = match n.s.as_str() {
                            "Int" => matches!(v, Value::Int(_, s) if s.parse::<i32>().is_ok()),
                            "Float" => matches!(v, Value::Int(..) | Value::Float(..)),
                            "String" => matches!(v, Value::Str(..)),
                            "Boolean" => matches!(v, Value::Bool(..)),
                            "ID" => matches!(v, Value::Str(..) | Value::Int(..)),
                            _ => true, // custom scalar: any literal
                        };
                        if !ok {
                            self.out.push(f(rule, format!("{:?} for {}", v, n.s)));
                        }
                    }
                    TsKind::Enum => match v {
                        Value::Enum(_, m) => {
                            if !def.values.iter().any(|x| x.name.s == *m) {
                                self.out.push(f(if rule == "value.type" { "value.enum" } else { rule }, format!("{m} not in {}", n.s)));
                            }
                        }
                        _ => self.out.push(f(rule, format!("{:?} for enum {}", v, n.s))),
                    },
                    TsKind::Input => match v {
                        Value::Obj(_, fs) => {
                            let mut seen = BTreeSet::new();
                            for (k, x) in fs {
                                if !seen.insert(k.s.as_str()) {
                                    self.out.push(f("input.field_unique", k.s.clone()));
                                }
                                match def.input_fields.iter().find(|d| d.name.s == k.s) {
                                    None => self.out.push(f(if rule == "value.type" { "input.field_known" } else { rule }, format!("{}.{}", n.s, k.s))),
                                    Some(d) => self.value(x, &d.ty, ctx.map(|(c, _)| (c, d.default.is_some())), rule),
                                }
                            }
                            for d in &def.input_fields {
                                if d.ty.is_nonnull() && d.default.is_none() && !fs.iter().any(|(k, _)| k.s == d.name.s) {
                                    self.out.push(f(if rule == "value.type" { "input.field_required" } else { rule }, format!("{}.{}", n.s, d.name.s)));
                                }
                            }
                        }
                        _ => self.out.push(f(rule, format!("{:?} for input object {}", v, n.s))),
                    },
                    _ => self.out.push(f(rule, format!("value for output type {}", n.s))),
                }
            }
        }
    }

    // ---------- 5.3.2 FieldsInSetCanMerge ----------
    fn merge_check(&mut self, sel: &SelSet, ty: &str) {
        if self.merge_depth >= 24 {
            return;
        }
        self.merge_depth += 1;
        self.merge_check_here(sel, ty);
        self.merge_depth -= 1;
    }
    fn merge_check_here(&mut self, sel: &SelSet, ty: &str) {
        let mut fields: Vec<(String, String, &Sel)> = vec![]; // (response key, parent type, field)
        self.collect_fields_static(sel, ty, &mut fields, &mut BTreeSet::new());
        for i in 0..fields.len() {
            for j in i + 1..fields.len() {
                let (ka, pa, fa) = &fields[i];
                let (kb, pb, fb) = &fields[j];
                if ka != kb {
                    continue;
                }
                let (Sel::Field { name: na, args: aa, sel: sa, .. }, Sel::Field { name: nb, args: ab, sel: sb, .. }) = (fa, fb) else { continue };
                let ta = self.field_type(pa, &na.s);
                let tb = self.field_type(pb, &nb.s);
                if let (Some(ta), Some(tb)) = (&ta, &tb)
                    && !same_response_shape(self.sch, ta, tb)
                {
                    self.out.push(f("field.merge", format!("{ka}: {} vs {}", ta.show(), tb.show())));
                    continue;
                }
                let same_parent_possible = pa == pb || !(self.sch.kind(pa) == Some(TsKind::Object) && self.sch.kind(pb) == Some(TsKind::Object));
                if same_parent_possible && (na.s != nb.s || !same_args(aa, ab)) {
                    self.out.push(f("field.merge", format!("{ka}: {} vs {}", na.s, nb.s)));
                    continue;
                }
                if let (Some(sa), Some(sb), Some(ta)) = (sa, sb, &ta) {
                    // merged sub-selections must be mergeable too
                    let merged = SelSet { p: P::default(), items: sa.items.iter().chain(sb.items.iter()).cloned().collect() };
                    let base = ta.base().to_string();
                    if self.sch.is_composite(&base) {
                        let before = self.out.len();
                        self.merge_check(&merged, &base);
                        // (duplicates are removed by the caller)
                        let _ = before;
                    }
                }
            }
        }
        // recurse into sub-selections individually
        for (_, p, fld) in fields {
            if let Sel::Field { name, sel: Some(sub), .. } = fld
                && let Some(t) = self.field_type(&p, &name.s)
                && self.sch.is_composite(t.base())
            {
                let b = t.base().to_string();
                self.merge_check(sub, &b);
            }
        }
    }
    fn field_type(&self, parent: &str, field: &str) -> Option<Ty> {
        if field == "__typename" {
            return Some(Ty::nn(Ty::named("String")));
        }
        self.sch.field(parent, field).map(|f| f.ty.clone())
    }
    fn collect_fields_static<'s>(&self, sel: &'s SelSet, ty: &str, out: &mut Vec<(String, String, &'s Sel)>, seen: &mut BTreeSet<String>)
    where
        'a: 's,
    {
        for s in &sel.items {
            match s {
                Sel::Field { alias, name, .. } => out.push((alias.as_ref().unwrap_or(name).s.clone(), ty.to_string(), s)),
                Sel::Inline { cond, sel, .. } => {
                    let t = cond.as_ref().map_or(ty.to_string(), |c| c.s.clone());
                    self.collect_fields_static(sel, &t, out, seen);
                }
                Sel::Spread { name, .. } => {
                    if seen.insert(name.s.clone())
                        && let Some(ExecDef::Frag { cond, sel, .. }) = self.frags.get(&name.s).copied()
                    {
                        self.collect_fields_static(sel, &cond.s, out, seen);
                    }
                }
            }
        }
    }
}

pub struct Ctx<'a> {
    vars: &'a [VarDef],
    used: std::cell::RefCell<BTreeSet<String>>,
}

fn collect_spreads(sel: &SelSet, out: &mut Vec<String>) {
    for s in &sel.items {
        match s {
            Sel::Field { sel: Some(sub), .. } => collect_spreads(sub, out),
            Sel::Inline { sel, .. } => collect_spreads(sel, out),
            Sel::Spread { name, .. } => out.push(name.s.clone()),
            _ => {}
        }
    }
}

fn same_args(a: &Option<Args>, b: &Option<Args>) -> bool {
    let e = vec![];
    let mut x: Vec<_> = a.as_ref().map_or(&e, |a| &a.items).iter().map(|(k, v)| (k.s.clone(), v.clone())).collect();
    let mut y: Vec<_> = b.as_ref().map_or(&e, |a| &a.items).iter().map(|(k, v)| (k.s.clone(), v.clone())).collect();
    x.sort_by(|p, q| p.0.cmp(&q.0));
    y.sort_by(|p, q| p.0.cmp(&q.0));
    x == y
}

fn same_response_shape(sch: &Sch, a: &Ty, b: &Ty) -> bool {
    match (a, b) {
        (Ty::NonNull(x), Ty::NonNull(y)) => same_response_shape(sch, x, y),
        (Ty::NonNull(_), _) | (_, Ty::NonNull(_)) => false,
        (Ty::List(_, x), Ty::List(_, y)) => same_response_shape(sch, x, y),
        (Ty::List(..), _) | (_, Ty::List(..)) => false,
        (Ty::Named(x), Ty::Named(y)) => {
            if sch.is_leaf(&x.s) || sch.is_leaf(&y.s) {
                x.s == y.s
            } else {
                true
            }
        }
    }
}

/// 5.8.5 IsVariableUsageAllowed / AreTypesCompatible
pub fn var_usage_allowed(var_ty: &Ty, var_default: Option<&Value>, loc_ty: &Ty, loc_has_default: bool) -> bool {
    if loc_ty.is_nonnull() && !var_ty.is_nonnull() {
        let has_non_null_var_default = var_default.is_some_and(|d| !matches!(d, Value::Null(_)));
        if !has_non_null_var_default && !loc_has_default {
            return false;
        }
        return types_compatible(var_ty, loc_ty.nullable());
    }
    types_compatible(var_ty, loc_ty)
}
pub fn types_compatible(var: &Ty, loc: &Ty) -> bool {
    match loc {
        Ty::NonNull(l) => match var {
            Ty::NonNull(v) => types_compatible(v, l),
            _ => false,
        },
        _ => match var {
            Ty::NonNull(v) => types_compatible(v, loc),
            Ty::List(_, vi) => match loc {
                Ty::List(_, li) => types_compatible(vi, li),
                _ => false,
            },
            Ty::Named(vn) => match loc {
                Ty::Named(ln) => vn.s == ln.s,
                _ => false,
            },
        },
    }
}
