//! C13 — `#import` resolution: every requested fragment, transitively, exactly once.
//!
//! Explicit enumeration of import graphs: n files, each defining a subset of fragments
//! {A, B} and one operation, and an ordered list of import lines (importer, target file or a
//! missing file, path spelling, named targets). Files go through the real parser and
//! `resolve_operation_extensions`; `resolve_operation_imports` is run with every file as root
//! and compared with a reference closure. The whole search runs in a child process so that
//! unbounded recursion (stack overflow) is observed as a verdict.

use crate::explore::{DistinctSet, fnv, par_for};
use crate::report::{Args, Reporter, Violation};
use crate::util::catch;
use nitrogql_ast::operation::ExecutableDefinition;
use nitrogql_ast::{OperationDocument, set_current_file_of_pos};
use nitrogql_error::PositionedError;
use nitrogql_parser::parse_operation_document;
use nitrogql_semantics::{OperationExtension, OperationResolver, resolve_operation_extensions, resolve_operation_imports};
use serde_json::{Value as J, json};
use std::collections::{BTreeMap, BTreeSet, HashMap};
use std::io::{BufRead, BufReader};
use std::path::{Path, PathBuf};
use std::sync::Mutex;
use std::sync::atomic::{AtomicU64, Ordering};

const SPELL: [&str; 3] = ["./", "", "../p/"];
/// named targets: None = `*`
const TARGETS: [&[Option<&str>]; 6] = [
    &[None],
    &[Some("A")],
    &[Some("B")],
    &[Some("A"), Some("B")],
    &[Some("A"), Some("A")],
    &[Some("C")],
];
/// fragment sets a file may define
const FRAGSETS: [&[&str]; 3] = [&["A", "B"], &["A"], &[]];

#[derive(Clone, Copy, Debug, PartialEq, Eq, Hash, PartialOrd, Ord)]
pub struct Line {
    importer: u8,
    /// == n means a file that does not exist
    target: u8,
    spell: u8,
    targets: u8,
}

#[derive(Clone, Debug)]
pub struct Case {
    n: usize,
    frags: Vec<u8>,
    lines: Vec<Line>,
    /// 0: every file in /p/. 1: the last file lives in the parent directory under the *base name of
    /// file 1* (`/f1.graphql` next to `/p/f1.graphql`): paths that differ only in `.` / `..`
    /// components then name different files.
    layout: u8,
}

fn in_parent(c: &Case, i: usize) -> bool {
    c.layout & 1 == 1 && c.n >= 3 && i == c.n - 1
}
fn base_name(c: &Case, i: usize) -> String {
    if i >= c.n {
        "nope.graphql".into()
    } else if in_parent(c, i) {
        "f1.graphql".into()
    } else {
        format!("f{i}.graphql")
    }
}
fn fpath(c: &Case, i: usize) -> String {
    // layouts 2 and 3 are layouts 0 and 1 named by project-relative paths (`p/f0.graphql`, `f1.graphql`), as a
    // library caller may name documents: a `..` then cancels the first component of a path
    format!("{}{}{}", if c.layout >= 2 { "" } else { "/" }, if in_parent(c, i) { "" } else { "p/" }, base_name(c, i))
}
/// the spelled relative path of an import line
fn spelled(c: &Case, l: &Line) -> String {
    let (from_parent, to_parent) = (in_parent(c, l.importer as usize), (l.target as usize) < c.n && in_parent(c, l.target as usize));
    let prefix = match (from_parent, to_parent) {
        (false, false) => SPELL[l.spell as usize],
        (false, true) => ["../", "./../", "../p/../"][l.spell as usize],
        (true, false) => ["./p/", "p/", "./p/../p/"][l.spell as usize],
        (true, true) => ["./", "", "p/../"][l.spell as usize],
    };
    format!("{prefix}{}", base_name(c, l.target as usize))
}

fn file_text(c: &Case, i: usize) -> String {
    let mut s = String::new();
    for l in c.lines.iter().filter(|l| l.importer as usize == i) {
        let ts: Vec<&str> = TARGETS[l.targets as usize].iter().map(|t| t.unwrap_or("*")).collect();
        s.push_str(&format!("#import {} from \"{}\"\n", ts.join(", "), spelled(c, l)));
    }
    s.push_str(&format!("query Q{i} {{ a }}\n"));
    for f in FRAGSETS[c.frags[i] as usize] {
        s.push_str(&format!("fragment {f} on T {{ x{i} }}\n"));
    }
    s
}

/// does the import graph (over existing files) contain a cycle?
fn has_cycle(c: &Case) -> bool {
    let n = c.n;
    let mut adj = vec![vec![]; n];
    for l in &c.lines {
        if (l.target as usize) < n {
            adj[l.importer as usize].push(l.target as usize);
        }
    }
    // DFS colouring
    fn dfs(u: usize, adj: &[Vec<usize>], col: &mut [u8]) -> bool {
        col[u] = 1;
        for &v in &adj[u] {
            if col[v] == 1 || (col[v] == 0 && dfs(v, adj, col)) {
                return true;
            }
        }
        col[u] = 2;
        false
    }
    let mut col = vec![0u8; n];
    (0..n).any(|u| col[u] == 0 && dfs(u, &adj, &mut col))
}

#[derive(Debug, PartialEq)]
enum RefOut {
    /// multiset of (origin file, "op"/"frag", name), own definitions first is not required
    Ok(BTreeMap<(usize, String), usize>),
    /// indices (into c.lines) of lines at which an error is legitimate
    Err(Vec<usize>),
}

fn reference(c: &Case, root: usize) -> RefOut {
    let n = c.n;
    // reachable files
    let mut reach = BTreeSet::new();
    let mut stack = vec![root];
    while let Some(u) = stack.pop() {
        if !reach.insert(u) {
            continue;
        }
        for l in c.lines.iter().filter(|l| l.importer as usize == u) {
            if (l.target as usize) < n {
                stack.push(l.target as usize);
            }
        }
    }
    let mut bad = vec![];
    let mut imported: BTreeSet<(usize, String)> = BTreeSet::new();
    for (li, l) in c.lines.iter().enumerate() {
        if !reach.contains(&(l.importer as usize)) {
            continue;
        }
        let t = l.target as usize;
        if t >= n {
            bad.push(li);
            continue;
        }
        let defined = FRAGSETS[c.frags[t] as usize];
        for tg in TARGETS[l.targets as usize] {
            match tg {
                None => {
                    for f in defined {
                        imported.insert((t, f.to_string()));
                    }
                }
                Some(name) => {
                    if defined.contains(name) {
                        imported.insert((t, name.to_string()));
                    } else if !bad.contains(&li) {
                        bad.push(li);
                    }
                }
            }
        }
    }
    if !bad.is_empty() {
        return RefOut::Err(bad);
    }
    let mut out: BTreeMap<(usize, String), usize> = BTreeMap::new();
    out.insert((root, format!("op:Q{root}")), 1);
    for f in FRAGSETS[c.frags[root] as usize] {
        out.insert((root, format!("frag:{f}")), 1);
    }
    for (file, name) in imported {
        out.insert((file, format!("frag:{name}")), 1);
    }
    RefOut::Ok(out)
}

struct Store<'a> {
    files: HashMap<PathBuf, (OperationDocument<'a>, OperationExtension<'a>)>,
}
impl<'a> OperationResolver<'a> for Store<'a> {
    fn resolve(&self, path: &Path) -> Option<(&OperationDocument<'a>, &OperationExtension<'a>)> {
        self.files.get(path).map(|(d, e)| (d, e))
    }
}

/// Ok(outcome label) | Err((key, what))
pub fn check_case(c: &Case) -> Result<&'static str, (String, String)> {
    let texts: Vec<String> = (0..c.n).map(|i| file_text(c, i)).collect();
    let mut store = Store { files: HashMap::new() };
    for (i, t) in texts.iter().enumerate() {
        set_current_file_of_pos(i);
        let doc = parse_operation_document(t).map_err(|e| ("parse.rejects".to_string(), format!("{t:?}: {}", e.into_message())))?;
        match resolve_operation_extensions(doc) {
            Ok((d, e)) => {
                store.files.insert(PathBuf::from(fpath(c, i)), (d, e));
            }
            // wildcard/specific mixing for one spelled path is a documented restriction: outside the space
            Err(_) => return Ok("skipped:wildcard-mix"),
        }
    }
    // line numbers of import lines inside each importer file (they are printed first, in order)
    let mut line_no = vec![0usize; c.lines.len()];
    let mut per_file = vec![0usize; c.n];
    for (li, l) in c.lines.iter().enumerate() {
        line_no[li] = per_file[l.importer as usize];
        per_file[l.importer as usize] += 1;
    }
    let mut any_err = false;
    for root in 0..c.n {
        let path = PathBuf::from(fpath(c, root));
        let (doc, ext) = store.files.get(&path).unwrap();
        let got = resolve_operation_imports((&path, doc, ext), &store);
        match (reference(c, root), got) {
            (RefOut::Ok(want), Ok(d)) => {
                let mut have: BTreeMap<(usize, String), usize> = BTreeMap::new();
                for def in &d.definitions {
                    let k = match def {
                        ExecutableDefinition::OperationDefinition(o) => (o.position.file, format!("op:{}", o.name.map_or("", |n| n.name))),
                        ExecutableDefinition::FragmentDefinition(f) => (f.position.file, format!("frag:{}", f.name.name)),
                    };
                    *have.entry(k).or_insert(0) += 1;
                }
                if have != want {
                    let missing: Vec<_> = want.keys().filter(|k| !have.contains_key(*k)).collect();
                    let extra: Vec<_> = have.keys().filter(|k| !want.contains_key(*k)).collect();
                    let dup: Vec<_> = have.iter().filter(|(_, n)| **n > 1).map(|(k, _)| k).collect();
                    let cls = if !missing.is_empty() {
                        "missing_fragment"
                    } else if extra.iter().any(|k| k.1.starts_with("op:")) {
                        "imported_operation"
                    } else if !extra.is_empty() {
                        "extra_fragment"
                    } else {
                        "duplicate_definition"
                    };
                    let shape = shape_tags(c, root);
                    return Err((
                        format!("result.{cls}[{shape}]"),
                        format!("root f{root}: missing {missing:?} extra {extra:?} duplicated {dup:?}"),
                    ));
                }
            }
            (RefOut::Err(bad), Err(e)) => {
                any_err = true;
                let pe: PositionedError = e.into();
                let Some(pos) = pe.position() else {
                    return Err(("error.no_position".into(), "import error without position".into()));
                };
                let hit = bad.iter().any(|li| c.lines[*li].importer as usize == pos.file && line_no[*li] == pos.line);
                if !hit {
                    return Err((
                        "error.position".into(),
                        format!("root f{root}: diagnostic at file {} line {} is not on an offending import line {:?}", pos.file, pos.line, bad),
                    ));
                }
            }
            (RefOut::Ok(_), Err(e)) => {
                return Err(("verdict.rejects_valid".into(), format!("root f{root}: error {:?} although every import resolves", e.message)));
            }
            (RefOut::Err(bad), Ok(_)) => {
                let shape = shape_tags(c, root);
                let kind = if bad.iter().any(|li| c.lines[*li].target as usize >= c.n) { "missing_file" } else { "undefined_fragment" };
                return Err((
                    format!("verdict.accepts_invalid:{kind}[{shape}]"),
                    format!("root f{root}: no error although import line(s) {bad:?} name a missing file or undefined fragment"),
                ));
            }
        }
    }
    Ok(if any_err { "error-reported" } else { "resolved" })
}

/// Coarse structural cause tags used to keep known findings narrow.
fn shape_tags(c: &Case, root: usize) -> String {
    let n = c.n;
    let mut tags = vec![];
    // a file reachable from root by two different import lines (diamond / repeated import)
    let mut indeg = vec![0usize; n];
    let mut reach = BTreeSet::new();
    let mut stack = vec![root];
    while let Some(u) = stack.pop() {
        if !reach.insert(u) {
            continue;
        }
        for l in c.lines.iter().filter(|l| l.importer as usize == u) {
            if (l.target as usize) < n {
                indeg[l.target as usize] += 1;
                stack.push(l.target as usize);
            }
        }
    }
    if indeg.iter().any(|d| *d > 1) {
        tags.push("file-imported-by-two-lines");
    }
    if indeg[root] > 0 {
        tags.push("cycle-through-root");
    } else if has_cycle(c) {
        tags.push("cycle");
    }
    if tags.is_empty() {
        tags.push("tree");
    }
    tags.join(",")
}

fn case_json(c: &Case) -> J {
    json!({
        "n": c.n,
        "layout": c.layout,
        "frags": c.frags,
        "lines": c.lines.iter().map(|l| json!([l.importer, l.target, l.spell, l.targets])).collect::<Vec<_>>(),
        "files": (0..c.n).map(|i| json!({"path": fpath(c, i), "text": file_text(c, i)})).collect::<Vec<_>>(),
    })
}
fn case_from_json(v: &J) -> Case {
    Case {
        layout: v["layout"].as_u64().unwrap_or(0) as u8,
        n: v["n"].as_u64().unwrap() as usize,
        frags: v["frags"].as_array().unwrap().iter().map(|x| x.as_u64().unwrap() as u8).collect(),
        lines: v["lines"]
            .as_array()
            .unwrap()
            .iter()
            .map(|l| Line {
                importer: l[0].as_u64().unwrap() as u8,
                target: l[1].as_u64().unwrap() as u8,
                spell: l[2].as_u64().unwrap() as u8,
                targets: l[3].as_u64().unwrap() as u8,
            })
            .collect(),
    }
}

struct Family {
    name: &'static str,
    layout: u8,
    n: usize,
    max_lines: usize,
    min_lines: usize,
    spells: Vec<u8>,
    targets: Vec<u8>,
    allow_missing: bool,
    fragsets: Vec<Vec<u8>>,
}

fn all_fragsets(n: usize) -> Vec<Vec<u8>> {
    let mut out = vec![];
    for code in 0..3usize.pow(n as u32) {
        let mut x = code;
        out.push((0..n).map(|_| { let v = (x % 3) as u8; x /= 3; v }).collect());
    }
    out
}

fn families(quick: bool) -> Vec<Family> {
    let all_t = vec![0, 1, 2, 3, 4, 5];
    let mut v = vec![
        Family { layout: 0, name: "n2-lines<=2-full", n: 2, max_lines: 2, min_lines: 0, spells: vec![0, 1, 2], targets: all_t.clone(), allow_missing: true, fragsets: all_fragsets(2) },
        Family { layout: 0, name: "n2-lines=3", n: 2, max_lines: 3, min_lines: 3, spells: vec![0, 2], targets: vec![0, 1, 3, 5], allow_missing: true, fragsets: all_fragsets(2) },
        Family { layout: 0, name: "n3-lines<=2-full", n: 3, max_lines: 2, min_lines: 0, spells: vec![0, 1, 2], targets: all_t.clone(), allow_missing: true, fragsets: all_fragsets(3) },
        Family {
            layout: 0,
            name: "n3-lines=3-restricted",
            n: 3,
            max_lines: 3,
            min_lines: 3,
            spells: if quick { vec![0] } else { vec![0, 2] },
            targets: if quick { vec![0, 1, 5] } else { vec![0, 1, 3, 5] },
            allow_missing: true,
            fragsets: if quick { vec![vec![0, 0, 0], vec![0, 1, 2], vec![1, 0, 0]] } else { all_fragsets(3) },
        },
    ];
    // a name repeated inside one import line next to later lines that ask the same file for its *other* fragments
    // (seeded change C13-k: a file counted as "completely imported" once a line names as many targets as it defines)
    v.push(Family {
        layout: 0,
        name: "n3-lines=3-repeated-target-names",
        n: 3,
        max_lines: 3,
        min_lines: 3,
        spells: vec![0],
        targets: if quick { vec![0, 2, 4] } else { vec![0, 1, 2, 4] },
        allow_missing: true,
        fragsets: if quick { vec![vec![0, 0, 0], vec![0, 1, 2], vec![1, 0, 0]] } else { all_fragsets(3) },
    });
    // same base name in two directories: /p/f1.graphql and /f1.graphql
    v.push(Family { layout: 1, name: "n3-same-name-in-parent-dir-lines<=2", n: 3, max_lines: 2, min_lines: 0, spells: vec![0, 1, 2], targets: vec![0, 1, 2, 3, 5], allow_missing: true, fragsets: all_fragsets(3) });
    v.push(Family {
        layout: 1,
        name: "n3-same-name-in-parent-dir-lines=3",
        n: 3,
        max_lines: 3,
        min_lines: 3,
        spells: if quick { vec![0] } else { vec![0, 1, 2] },
        targets: if quick { vec![0, 1, 5] } else { vec![0, 1, 3, 5] },
        allow_missing: false,
        fragsets: if quick { vec![vec![0, 0, 0], vec![0, 1, 1], vec![1, 0, 2]] } else { all_fragsets(3) },
    });
    // the same with project-relative document names
    v.push(Family { layout: 2, name: "n2-lines<=2-full-relative-names", n: 2, max_lines: 2, min_lines: 0, spells: vec![0, 1, 2], targets: all_t.clone(), allow_missing: true, fragsets: all_fragsets(2) });
    v.push(Family {
        layout: 3,
        name: "n3-same-name-in-parent-dir-lines<=2-relative-names",
        n: 3,
        max_lines: 2,
        min_lines: 0,
        spells: vec![0, 1, 2],
        targets: vec![0, 1, 2, 3, 5],
        allow_missing: true,
        fragsets: if quick { vec![vec![0, 0, 0], vec![0, 1, 1], vec![1, 0, 2]] } else { all_fragsets(3) },
    });
    if !quick {
        v.push(Family { layout: 0, name: "n2-lines=3-full", n: 2, max_lines: 3, min_lines: 3, spells: vec![0, 1, 2], targets: all_t.clone(), allow_missing: true, fragsets: all_fragsets(2) });
    }
    if !quick {
        v.push(Family { layout: 0, name: "n4-lines<=3", n: 4, max_lines: 3, min_lines: 3, spells: vec![0], targets: vec![0, 1], allow_missing: true, fragsets: all_fragsets(4) });
        v.push(Family { layout: 0, name: "n4-lines=4-diamond", n: 4, max_lines: 4, min_lines: 4, spells: vec![0], targets: vec![0, 1], allow_missing: false, fragsets: vec![vec![0, 0, 0, 0], vec![0, 1, 1, 0]] });
        v.push(Family { layout: 0, name: "n3-lines=4", n: 3, max_lines: 4, min_lines: 4, spells: vec![0, 2], targets: vec![0, 1], allow_missing: false, fragsets: vec![vec![0, 0, 0]] });
    }
    v
}

fn line_alphabet(f: &Family) -> Vec<Line> {
    let mut v = vec![];
    for importer in 0..f.n as u8 {
        for target in 0..(f.n + f.allow_missing as usize) as u8 {
            for &spell in &f.spells {
                for &targets in &f.targets {
                    v.push(Line { importer, target, spell, targets });
                }
            }
        }
    }
    v
}

// ------------------------------------------------------------------------------------------ through the CLI

const CLI_SCHEMA: &str = "type Query { a: Int t: T }\ntype T { x0: Int x1: Int x2: Int x3: Int }\n";

/// Import graphs as project directories: the CLI's own table of loaded documents (which files can be
/// import targets, under which path) is part of what decides the result.
fn part_cli(args: &Args, rep: &Reporter) -> J {
    use crate::clilayer::{CProj, run_and_compare};
    let mut fams = vec![
        Family { layout: 0, name: "cli:n3-lines<=2", n: 3, max_lines: 2, min_lines: 0, spells: if args.quick() { vec![0] } else { vec![0, 2] }, targets: vec![0, 1, 5], allow_missing: true, fragsets: vec![vec![0, 0, 0], vec![0, 1, 2], vec![2, 2, 0], vec![1, 2, 2]] },
        Family { layout: 1, name: "cli:n3-same-name-in-parent-dir-lines<=2", n: 3, max_lines: 2, min_lines: 1, spells: vec![0], targets: vec![0, 1], allow_missing: false, fragsets: vec![vec![0, 0, 0], vec![2, 1, 1]] },
        // the second document is a symbolic link into a directory no pattern matches: documents are what the patterns
        // match, under the path they are matched by
        Family { layout: 0, name: "cli:n3-one-document-is-a-symlink-lines<=2", n: 3, max_lines: 2, min_lines: 1, spells: vec![0], targets: vec![0, 1], allow_missing: false, fragsets: vec![vec![0, 0, 0], vec![0, 1, 2]] },
    ];
    if !args.quick() {
        fams.push(Family { layout: 0, name: "cli:n3-lines=3", n: 3, max_lines: 3, min_lines: 3, spells: vec![0], targets: vec![0, 1], allow_missing: false, fragsets: vec![vec![0, 0, 0], vec![2, 0, 1]] });
    }
    let runs = AtomicU64::new(0);
    let accepted = AtomicU64::new(0);
    let files_cmp = AtomicU64::new(0);
    let mut fam_json = serde_json::Map::new();
    // a file whose own import lines are rejected (a wildcard and a named import of one path), next to one more import
    // line anywhere: the faulty file must be the only thing reported
    let mix_family = Family { layout: 0, name: "cli:n3-wildcard-mix-in-one-file-plus-one-line", n: 3, max_lines: 1, min_lines: 1, spells: vec![0], targets: vec![0, 1], allow_missing: false, fragsets: vec![vec![0, 0, 0], vec![0, 1, 0]] };
    for f in fams.iter().chain(std::iter::once(&mix_family)) {
        let alpha = line_alphabet(f);
        let a = alpha.len();
        let mut cases: Vec<Case> = vec![];
        if f.name.contains("wildcard-mix") {
            for l in &alpha {
                for fs in &f.fragsets {
                    for (at_front, importer) in [(true, 1u8), (false, 1), (true, 2)] {
                        let mix = vec![Line { importer, target: (importer + 1) % 3, spell: 0, targets: 0 }, Line { importer, target: (importer + 1) % 3, spell: 0, targets: 1 }];
                        let mut lines = if at_front { mix.clone() } else { vec![*l] };
                        if at_front { lines.push(*l) } else { lines.extend(mix) }
                        cases.push(Case { n: 3, frags: fs.clone(), lines, layout: 0 });
                    }
                }
            }
        }
        for len in f.min_lines..=f.max_lines {
            if f.name.contains("wildcard-mix") {
                break;
            }
            for code in 0..a.pow(len as u32) {
                let mut x = code;
                let lines: Vec<Line> = (0..len).map(|_| { let l = alpha[x % a]; x /= a; l }).collect();
                for fs in &f.fragsets {
                    cases.push(Case { n: f.n, frags: fs.clone(), lines: lines.clone(), layout: f.layout });
                }
            }
        }
        par_for(cases.len(), args.threads, |ci| {
            let c = &cases[ci];
            let ops: Vec<(String, String)> = (0..c.n).map(|i| (format!("src{}", fpath(c, i)), file_text(c, i))).collect();
            let link = f.name.contains("symlink").then(|| (ops[1].0.clone(), "store/real1.graphql".to_string()));
            let mut p = CProj::new(vec![("schema/s.graphql".to_string(), CLI_SCHEMA.to_string())], ops);
            p.links.extend(link);
            p.resolvers_out = None;
            p.server_out = None;
            let case = |extra: J| { let mut j = case_json(c); j["part"] = json!("cli"); j["project"] = p.to_json(); j["detail"] = extra; j };
            runs.fetch_add(1, Ordering::Relaxed);
            if has_cycle(c) {
                // the library route runs in this process: record the case before unbounded recursion could kill it
                announce(c);
            }
            match run_and_compare(&p, "c13") {
                Err(pn) => rep.report(Violation { key: format!("cli.library_panic@{}", pn.key()), what: format!("library entry points panic at {}: {}", pn.site, pn.msg), case: case(json!({})) }),
                Ok(Err(e)) => rep.report(Violation { key: "machinery.clilayer".into(), what: e, case: case(json!({})) }),
                Ok(Ok(r)) => {
                    if r.accepted {
                        accepted.fetch_add(1, Ordering::Relaxed);
                    }
                    files_cmp.fetch_add(r.files_compared as u64, Ordering::Relaxed);
                    for (k, w) in &r.diffs {
                        rep.report(Violation { key: format!("cli.{k}[{}]", shape_tags(c, 0)), what: w.clone(), case: case(json!({"cli_exit": r.cli.code, "cli_stdout": r.cli.stdout.chars().take(3000).collect::<String>(), "library_route": r.expected_summary})) });
                    }
                    // the reference closure's verdict binds the CLI directly: an error iff some file's imports dangle
                    let wildcard_mix = matches!(catch(|| check_case(c)), Ok(Ok("skipped:wildcard-mix")));
                    if !wildcard_mix {
                        let dangling = (0..c.n).any(|root| matches!(reference(c, root), RefOut::Err(_)));
                        if dangling && r.cli.code == Some(0) {
                            rep.report(Violation { key: "cli.verdict.accepts_dangling_import".into(), what: "the CLI accepts a project in which an import names a missing file or an undefined fragment".into(), case: case(json!({})) });
                        }
                        if !dangling && r.cli.code != Some(0) && r.cli.stdout.contains("not found") {
                            rep.report(Violation { key: format!("cli.verdict.rejects_resolvable_import[{}]", shape_tags(c, 0)), what: format!("every import of the project resolves, but the CLI reports: {}", crate::cli::strip_ansi(&r.cli.stdout).chars().take(400).collect::<String>()), case: case(json!({})) });
                        }
                    }
                }
            }
        });
        fam_json.insert(f.name.to_string(), json!({"files": f.n, "lines": format!("{}..={}", f.min_lines, f.max_lines), "line_alphabet": a, "fragment_assignments": f.fragsets.len(), "projects": cases.len()}));
    }
    crate::cli::cleanup("c13");
    json!({"families": fam_json, "cli_runs": runs.load(Ordering::Relaxed), "accepted_and_all_outputs_compared": accepted.load(Ordering::Relaxed), "files_compared_bytewise": files_cmp.load(Ordering::Relaxed)})
}

/// The same graphs through the bundler-loader protocol (real ABI, worker subprocess): the root's module must hold
/// exactly the root's definitions plus the reference closure, whichever way the host supplies the files the task
/// asks for (all per round / one per round / asking twice before supplying one).
fn part_loader(args: &Args, rep: &Reporter) -> J {
    let fams = [
        Family { layout: 0, name: "loader:n3-lines<=2", n: 3, max_lines: 2, min_lines: 0, spells: vec![0], targets: vec![0, 1, 5], allow_missing: true, fragsets: vec![vec![0, 0, 0], vec![0, 1, 2], vec![2, 2, 0]] },
        // a file in the parent directory under the base name of a file beside the root: a chain through it must be
        // resolved against the importing file's directory, not the root's
        Family { layout: 1, name: "loader:n3-same-name-in-parent-dir-lines<=2", n: 3, max_lines: 2, min_lines: 1, spells: vec![0], targets: vec![0, 1], allow_missing: false, fragsets: vec![vec![0, 0, 0], vec![2, 1, 1]] },
    ];
    let mut cases: Vec<Case> = vec![];
    for f in &fams {
        let alpha = line_alphabet(f);
        let a = alpha.len();
        for len in f.min_lines..=f.max_lines {
            for code in 0..a.pow(len as u32) {
                let mut x = code;
                let lines: Vec<Line> = (0..len).map(|_| { let l = alpha[x % a]; x /= a; l }).collect();
                for fs in &f.fragsets {
                    cases.push(Case { n: f.n, frags: fs.clone(), lines: lines.clone(), layout: f.layout });
                }
            }
        }
    }
    let pool = crate::worker::Pool::new("c12-loader", args.threads);
    let asked = AtomicU64::new(0);
    let emitted = AtomicU64::new(0);
    par_for(cases.len(), args.threads, |ci| {
        let c = &cases[ci];
        if matches!(catch(|| check_case(c)), Ok(Ok("skipped:wildcard-mix"))) {
            return;
        }
        let files: Vec<J> = (0..c.n).map(|i| json!([fpath(c, i), file_text(c, i)])).collect();
        for strategy in 0..3u64 {
            asked.fetch_add(1, Ordering::Relaxed);
            let case = |extra: J| { let mut j = case_json(c); j["part"] = json!("loader"); j["strategy"] = json!(strategy); j["detail"] = extra; j };
            let answer = pool.ask(ci, &json!({"text": "", "files": files, "strategy": strategy}));
            let v = match answer {
                crate::worker::Answer::Done(v) => v,
                crate::worker::Answer::Died { panic, status } => {
                    rep.report(Violation { key: "loader.trap".into(), what: format!("the loader died: {panic:?} {status}"), case: case(json!({})) });
                    continue;
                }
            };
            match (reference(c, 0), v["js"].as_str()) {
                (RefOut::Ok(want), Some(js)) => {
                    emitted.fetch_add(1, Ordering::Relaxed);
                    let Ok(consts) = crate::c12::const_documents(js) else {
                        rep.report(Violation { key: "loader.unreadable_module".into(), what: "cannot read the emitted module".into(), case: case(json!({"js": js})) });
                        continue;
                    };
                    // one constant per definition of the resolved document: compare the multiset of definition names
                    let mut have: BTreeMap<String, usize> = BTreeMap::new();
                    for (_, doc, _) in &consts {
                        let first = &doc["definitions"][0];
                        let kind = if first["kind"] == "FragmentDefinition" { "frag" } else { "op" };
                        *have.entry(format!("{kind}:{}", first["name"]["value"].as_str().unwrap_or(""))).or_insert(0) += 1;
                    }
                    let mut wanted: BTreeMap<String, usize> = BTreeMap::new();
                    for ((_, name), n) in &want {
                        *wanted.entry(name.clone()).or_insert(0) += n;
                    }
                    if have != wanted {
                        rep.report(Violation { key: format!("loader.definitions_differ[strategy{strategy}:{}]", shape_tags(c, 0)), what: format!("the root's module holds {have:?}, the reference closure {wanted:?}"), case: case(json!({"js": js})) });
                    }
                }
                (RefOut::Ok(_), None) => rep.report(Violation { key: format!("loader.fails_on_resolvable_imports[strategy{strategy}:{}]", shape_tags(c, 0)), what: format!("every import resolves, but the loader fails: {}", v["error"]), case: case(json!({})) }),
                (RefOut::Err(_), Some(js)) => rep.report(Violation { key: format!("loader.accepts_dangling_import[strategy{strategy}]"), what: "an import names a missing file or an undefined fragment, but the loader emits a module".into(), case: case(json!({"js": js})) }),
                (RefOut::Err(_), None) => {}
            }
        }
    });
    json!({"families": fams.iter().map(|f| f.name).collect::<Vec<_>>(), "graphs": cases.len(), "supply_strategies": 3, "loader_runs": asked.load(Ordering::Relaxed), "modules_compared_with_the_reference_closure": emitted.load(Ordering::Relaxed)})
}

fn inner(args: &Args) -> i32 {
    let rep = Reporter::new("C13", &args.tier);
    crate::util::install_hook();
    let cli_part = part_cli(args, &rep);
    let loader_part = part_loader(args, &rep);
    let cases = AtomicU64::new(0);
    let cyclic = AtomicU64::new(0);
    let outcomes: Mutex<BTreeMap<String, u64>> = Mutex::new(BTreeMap::new());
    let distinct = DistinctSet::new();
    let mut fam_json = serde_json::Map::new();
    for f in families(args.quick()) {
        let alpha = line_alphabet(&f);
        let a = alpha.len();
        let before = cases.load(Ordering::Relaxed);
        for len in f.min_lines..=f.max_lines {
            let total = a.pow(len as u32);
            let heads = if len == 0 { 1 } else { a.pow(len.min(2) as u32) };
            let tail = total / heads;
            par_for(heads, args.threads, |h| {
                let mut local: BTreeMap<String, u64> = BTreeMap::new();
                let mut lines = vec![alpha[0]; len];
                let mut hh = h;
                for s in lines.iter_mut().take(len.min(2)) {
                    *s = alpha[hh % a];
                    hh /= a;
                }
                for t in 0..tail {
                    let mut tt = t;
                    for s in lines.iter_mut().skip(2) {
                        *s = alpha[tt % a];
                        tt /= a;
                    }
                    for fs in &f.fragsets {
                        let c = Case { n: f.n, frags: fs.clone(), lines: lines.clone(), layout: f.layout };
                        cases.fetch_add(1, Ordering::Relaxed);
                        if has_cycle(&c) {
                            cyclic.fetch_add(1, Ordering::Relaxed);
                            // record before running: unbounded recursion would kill this process
                            announce(&c);
                        }
                        match catch(|| check_case(&c)) {
                            Ok(Ok(o)) => {
                                *local.entry(o.to_string()).or_insert(0) += 1;
                                if o == "resolved" {
                                    distinct.insert(fnv(format!("{c:?}").as_bytes()));
                                }
                            }
                            Ok(Err((key, what))) => rep.report(Violation { key, what, case: case_json(&c) }),
                            Err(p) => rep.report(Violation {
                                key: format!("panic@{}", p.key()),
                                what: format!("panic at {}: {}", p.site, p.msg),
                                case: case_json(&c),
                            }),
                        }
                    }
                }
                let mut g = outcomes.lock().unwrap();
                for (k, v) in local {
                    *g.entry(k).or_insert(0) += v;
                }
            });
        }
        fam_json.insert(
            f.name.to_string(),
            json!({"files": f.n, "lines": format!("{}..={}", f.min_lines, f.max_lines), "line_alphabet": a, "fragment_assignments": f.fragsets.len(), "cases": cases.load(Ordering::Relaxed) - before}),
        );
    }
    let n = cases.load(Ordering::Relaxed);
    let sample = Case { layout: 0, n: 3, frags: vec![0, 0, 0], lines: vec![Line { importer: 0, target: 1, spell: 0, targets: 1 }, Line { importer: 0, target: 2, spell: 2, targets: 0 }, Line { importer: 1, target: 2, spell: 0, targets: 3 }] };
    let cov = json!({
        "states": n,
        "transitions": n * 3,
        "traces_validated_against_impl": n,
        "evaluations": n,
        "distinct_nontrivial": distinct.len(),
        "rule": "explicit enumeration of (files, fragment sets per file, ordered import lines); every file is used as root; non-trivial = every root resolved and its definition multiset was compared with the reference closure",
        "exhaustive": true,
        "families": fam_json,
        "graphs_with_cycles": cyclic.load(Ordering::Relaxed),
        "through_the_cli": cli_part,
        "through_the_loader": loader_part,
        "outcomes": *outcomes.lock().unwrap(),
        "samples": [case_json(&sample)],
    });
    rep.finish(
        cov,
        vec![
            "reference closure: own definitions + for every import line of every reachable file the named (or all) fragments of its target, each (file, name) once; error iff a reachable line names a missing file or undefined fragment".into(),
            "a wildcard combined with named targets (or a second wildcard) for one spelled path is nitrogql's documented restriction and outside the space".into(),
            "through the CLI: the same graphs as project directories; verdict, located diagnostics and every written byte of `check generate` must equal the library route's, and the reference closure's verdict (error iff an import dangles) binds the CLI's exit status directly".into(),
        ],
    )
}

const SLOT: usize = 512;
thread_local! {
    static MY_SLOT: std::cell::Cell<usize> = const { std::cell::Cell::new(usize::MAX) };
}
static NEXT: std::sync::atomic::AtomicUsize = std::sync::atomic::AtomicUsize::new(0);
static SLOTS: std::sync::OnceLock<Option<std::fs::File>> = std::sync::OnceLock::new();

fn slot_path() -> Option<String> {
    std::env::var("NQV_C13_SLOTS").ok()
}

/// write the case into this thread's slot of the shared file (one pwrite, no flush through a pipe)
fn announce(c: &Case) {
    use std::os::unix::fs::FileExt;
    let f = SLOTS.get_or_init(|| slot_path().and_then(|p| std::fs::OpenOptions::new().write(true).create(true).truncate(false).open(p).ok()));
    let Some(f) = f else { return };
    let slot = MY_SLOT.with(|s| {
        if s.get() == usize::MAX {
            s.set(NEXT.fetch_add(1, Ordering::Relaxed));
        }
        s.get()
    });
    let mut buf = case_json_compact(c).into_bytes();
    buf.resize(SLOT, b' ');
    let _ = f.write_at(&buf, (slot * SLOT) as u64);
}

fn case_json_compact(c: &Case) -> String {
    json!({"n": c.n, "layout": c.layout, "frags": c.frags, "lines": c.lines.iter().map(|l| json!([l.importer, l.target, l.spell, l.targets])).collect::<Vec<_>>()}).to_string()
}

/// Parent: run the search in a child; a crash there is a verdict about an announced cyclic case.
pub fn run(args: &Args) -> i32 {
    match std::env::var("NQV_CHILD").as_deref() {
        Ok("c13-inner") => return inner(args),
        Ok("c13-one") => {
            let v: J = serde_json::from_str(&std::env::var("NQV_CASE").unwrap_or_default()).unwrap_or(J::Null);
            let c = case_from_json(&v);
            let _ = check_case(&c);
            return 0;
        }
        _ => {}
    }
    let exe = std::env::current_exe().unwrap();
    let slots = format!("{}/c13-slots-{}", std::env::var("NQV_TMP").unwrap_or_else(|_| "/verif/.build/tmp".into()), std::process::id());
    let _ = std::fs::create_dir_all(std::path::Path::new(&slots).parent().unwrap());
    let _ = std::fs::remove_file(&slots);
    let mut child = std::process::Command::new(&exe)
        .args(["C13", "--tier", &args.tier, "--threads", &args.threads.to_string()])
        .env("NQV_CHILD", "c13-inner")
        .env("NQV_C13_SLOTS", &slots)
        .stdout(std::process::Stdio::piped())
        .spawn()
        .unwrap_or_else(|e| crate::report::machinery(&format!("cannot spawn: {e}")));
    let out = BufReader::new(child.stdout.take().unwrap());
    for line in out.lines() {
        let Ok(line) = line else { break };
        println!("{line}");
    }
    let status = child.wait().unwrap();
    let slot_bytes = std::fs::read(&slots).unwrap_or_default();
    let _ = std::fs::remove_file(&slots);
    if let Some(code) = status.code()
        && (0..=2).contains(&code)
    {
        return code;
    }
    let recent: Vec<String> = slot_bytes.chunks(SLOT).map(|c| String::from_utf8_lossy(c).trim().to_string()).filter(|s| s.starts_with('{')).collect();
    // abnormal end: find the announced case that kills a fresh process
    let rep = Reporter::new("C13", &args.tier);
    let mut found = false;
    for c in recent.iter().rev() {
        let st = std::process::Command::new(&exe).arg("C13").env("NQV_CHILD", "c13-one").env("NQV_CASE", c).status();
        if let Ok(st) = st
            && !st.success()
        {
            let v: J = serde_json::from_str(c).unwrap();
            rep.report(Violation {
                key: "abort.import_resolution".into(),
                what: format!("import resolution aborts the process ({st:?}) - unbounded recursion on an import cycle?"),
                case: case_json(&case_from_json(&v)),
            });
            found = true;
            break;
        }
    }
    if !found {
        crate::report::machinery(&format!("search process died ({status:?}) and no announced case reproduces it"));
    }
    rep.finish(json!({"evaluations": 1, "distinct_nontrivial": 2, "aborted": "search process died; culprit case isolated", "samples": [recent.last()]}), vec![])
}

pub fn replay(case: &J) -> i32 {
    if case["part"].as_str() == Some("cli") {
        println!("{}", serde_json::to_string_pretty(case).unwrap_or_default().replace("\\n", "\n"));
        return 0;
    }
    let c = case_from_json(case);
    for i in 0..c.n {
        println!("--- {} ---\n{}", fpath(&c, i), file_text(&c, i));
    }
    match check_case(&c) {
        Ok(o) => {
            println!("passes: {o}");
            0
        }
        Err((k, w)) => {
            println!("FAIL {k}: {w}");
            1
        }
    }
}
