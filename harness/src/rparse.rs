//! R-LEX / R-PARSE — independent lexer and recursive-descent parser for GraphQL
//! executable and type-system documents (October 2021 spec) plus the `#import`
//! extension. Shares no code with /repo. Positions are (line, column-in-chars).

use crate::gql::*;

#[derive(Clone, Debug, PartialEq)]
pub enum Tok {
    Punct(&'static str),
    Name(String),
    Int(String),
    Float(String),
    /// decoded value, is_block
    Str(String, bool),
    /// `#import ...` line: targets (None = *), path, path position
    Import(Vec<Option<Name>>, String, P),
    Eof,
}

#[derive(Clone, Debug)]
pub struct Token {
    pub t: Tok,
    pub p: P,
    /// byte offset
    pub off: usize,
}

pub type PResult<T> = Result<T, String>;

struct Lx<'a> {
    s: &'a [char],
    i: usize,
    line: u32,
    col: u32,
    off: usize,
}

impl<'a> Lx<'a> {
    fn peek(&self, k: usize) -> Option<char> {
        self.s.get(self.i + k).copied()
    }
    fn bump(&mut self) -> Option<char> {
        let c = self.s.get(self.i).copied()?;
        self.i += 1;
        self.off += c.len_utf8();
        if c == '\n' {
            self.line += 1;
            self.col = 0;
        } else if c == '\r' {
            if self.peek(0) == Some('\n') {
                // CRLF: the LF will advance the line
                self.col += 1;
            } else {
                self.line += 1;
                self.col = 0;
            }
        } else {
            self.col += 1;
        }
        Some(c)
    }
    fn pos(&self) -> P {
        P::at(self.line, self.col)
    }
}

fn is_name_start(c: char) -> bool {
    c.is_ascii_alphabetic() || c == '_'
}
fn is_name_cont(c: char) -> bool {
    c.is_ascii_alphanumeric() || c == '_'
}

/// spec §2.9.4 BlockStringValue(rawValue)
pub fn block_string_value(raw: &str) -> String {
    // split on line terminators \r\n | \n | \r
    let mut lines: Vec<String> = vec![];
    let mut cur = String::new();
    let cs: Vec<char> = raw.chars().collect();
    let mut i = 0;
    while i < cs.len() {
        match cs[i] {
            '\r' => {
                if cs.get(i + 1) == Some(&'\n') {
                    i += 1;
                }
                lines.push(std::mem::take(&mut cur));
            }
            '\n' => lines.push(std::mem::take(&mut cur)),
            c => cur.push(c),
        }
        i += 1;
    }
    lines.push(cur);
    let is_ws = |c: char| c == ' ' || c == '\t';
    let mut common: Option<usize> = None;
    for l in lines.iter().skip(1) {
        let indent = l.chars().take_while(|c| is_ws(*c)).count();
        if indent < l.chars().count() && common.is_none_or(|c| indent < c) {
            common = Some(indent);
        }
    }
    if let Some(c) = common {
        for l in lines.iter_mut().skip(1) {
            let n = l.chars().count();
            *l = l.chars().skip(c.min(n)).collect();
        }
    }
    while lines.first().is_some_and(|l| l.chars().all(is_ws)) {
        lines.remove(0);
    }
    while lines.last().is_some_and(|l| l.chars().all(is_ws)) {
        lines.pop();
    }
    lines.join("\n")
}

pub fn lex(text: &str) -> PResult<Vec<Token>> {
    let chars: Vec<char> = text.chars().collect();
    let mut lx = Lx {
        s: &chars,
        i: 0,
        line: 0,
        col: 0,
        off: 0,
    };
    let mut out = vec![];
    loop {
        // ignored tokens
        let Some(c) = lx.peek(0) else { break };
        match c {
            '\u{FEFF}' | '\t' | ' ' | ',' | '\n' | '\r' => {
                lx.bump();
                continue;
            }
            '#' => {
                let p = lx.pos();
                let off = lx.off;
                // collect the comment line
                let mut j = lx.i + 1;
                while j < chars.len() && chars[j] != '\n' && chars[j] != '\r' {
                    j += 1;
                }
                let body: String = chars[lx.i + 1..j].iter().collect();
                let trimmed = body.trim_start_matches(' ');
                let is_import = trimmed.starts_with("import")
                    && !trimmed[6..].chars().next().is_some_and(is_name_cont);
                if is_import {
                    // parse: import <targets> from "<path>"
                    let lead = 1 + (body.chars().count() - trimmed.chars().count());
                    let tok = lex_import(trimmed, p, lead as u32)?;
                    while lx.i < j {
                        lx.bump();
                    }
                    out.push(Token { t: tok, p, off });
                } else {
                    while lx.i < j {
                        lx.bump();
                    }
                }
                continue;
            }
            _ => {}
        }
        let p = lx.pos();
        let off = lx.off;
        let t = match c {
            '!' | '$' | '&' | '(' | ')' | ':' | '=' | '@' | '[' | ']' | '{' | '|' | '}' => {
                lx.bump();
                Tok::Punct(match c {
                    '!' => "!",
                    '$' => "$",
                    '&' => "&",
                    '(' => "(",
                    ')' => ")",
                    ':' => ":",
                    '=' => "=",
                    '@' => "@",
                    '[' => "[",
                    ']' => "]",
                    '{' => "{",
                    '|' => "|",
                    _ => "}",
                })
            }
            '.' => {
                if lx.peek(1) == Some('.') && lx.peek(2) == Some('.') {
                    lx.bump();
                    lx.bump();
                    lx.bump();
                    Tok::Punct("...")
                } else {
                    return Err(format!("{}:{} unexpected '.'", p.line, p.col));
                }
            }
            '"' => lex_string(&mut lx)?,
            c if is_name_start(c) => {
                let mut s = String::new();
                while let Some(c) = lx.peek(0) {
                    if is_name_cont(c) {
                        s.push(c);
                        lx.bump();
                    } else {
                        break;
                    }
                }
                Tok::Name(s)
            }
            c if c == '-' || c.is_ascii_digit() => lex_number(&mut lx)?,
            c => return Err(format!("{}:{} unexpected character {:?}", p.line, p.col, c)),
        };
        out.push(Token { t, p, off });
    }
    out.push(Token {
        t: Tok::Eof,
        p: lx.pos(),
        off: lx.off,
    });
    Ok(out)
}

fn lex_import(body: &str, hash_pos: P, lead: u32) -> PResult<Tok> {
    // body starts with "import"; columns are hash_pos.col + lead + index
    let cs: Vec<char> = body.chars().collect();
    let mut i = 6;
    let mut targets = vec![];
    let col0 = hash_pos.col + lead;
    let skip = |i: &mut usize| {
        while *i < cs.len() && matches!(cs[*i], ' ' | '\t' | ',' | '\u{FEFF}') {
            *i += 1;
        }
    };
    loop {
        skip(&mut i);
        if i >= cs.len() {
            return Err("import: missing from".into());
        }
        if cs[i] == '*' {
            targets.push(None);
            i += 1;
            continue;
        }
        if is_name_start(cs[i]) {
            let st = i;
            while i < cs.len() && is_name_cont(cs[i]) {
                i += 1;
            }
            let w: String = cs[st..i].iter().collect();
            if w == "from" {
                break;
            }
            targets.push(Some(Name {
                p: P::at(hash_pos.line, col0 + st as u32),
                s: w,
            }));
            continue;
        }
        return Err(format!("import: unexpected {:?}", cs[i]));
    }
    if targets.is_empty() {
        return Err("import: no targets".into());
    }
    skip(&mut i);
    if i >= cs.len() || cs[i] != '"' {
        return Err("import: expected string".into());
    }
    let path_pos = P::at(hash_pos.line, col0 + i as u32);
    let rest: String = cs[i..].iter().collect();
    let rc: Vec<char> = rest.chars().collect();
    let mut lx = Lx {
        s: &rc,
        i: 0,
        line: 0,
        col: 0,
        off: 0,
    };
    let t = lex_string(&mut lx)?;
    let Tok::Str(path, _) = t else { unreachable!() };
    // anything after the string must be blank
    if rc[lx.i..].iter().any(|c| !matches!(c, ' ' | '\t' | ',' | '\u{FEFF}')) {
        return Err("import: trailing garbage".into());
    }
    Ok(Tok::Import(targets, path, path_pos))
}

fn lex_number(lx: &mut Lx) -> PResult<Tok> {
    let p = lx.pos();
    let mut s = String::new();
    if lx.peek(0) == Some('-') {
        s.push('-');
        lx.bump();
    }
    match lx.peek(0) {
        Some('0') => {
            s.push('0');
            lx.bump();
            if lx.peek(0).is_some_and(|c| c.is_ascii_digit()) {
                return Err(format!("{}:{} leading zero", p.line, p.col));
            }
        }
        Some(c) if c.is_ascii_digit() => {
            while let Some(c) = lx.peek(0) {
                if c.is_ascii_digit() {
                    s.push(c);
                    lx.bump();
                } else {
                    break;
                }
            }
        }
        _ => return Err(format!("{}:{} bad number", p.line, p.col)),
    }
    let mut float = false;
    if lx.peek(0) == Some('.') {
        if !lx.peek(1).is_some_and(|c| c.is_ascii_digit()) {
            return Err(format!("{}:{} bad fraction", p.line, p.col));
        }
        float = true;
        s.push('.');
        lx.bump();
        while let Some(c) = lx.peek(0) {
            if c.is_ascii_digit() {
                s.push(c);
                lx.bump();
            } else {
                break;
            }
        }
    }
    if matches!(lx.peek(0), Some('e') | Some('E')) {
        float = true;
        s.push(lx.bump().unwrap());
        if matches!(lx.peek(0), Some('+') | Some('-')) {
            s.push(lx.bump().unwrap());
        }
        if !lx.peek(0).is_some_and(|c| c.is_ascii_digit()) {
            return Err(format!("{}:{} bad exponent", p.line, p.col));
        }
        while let Some(c) = lx.peek(0) {
            if c.is_ascii_digit() {
                s.push(c);
                lx.bump();
            } else {
                break;
            }
        }
    }
    if lx.peek(0).is_some_and(|c| c == '.' || is_name_start(c)) {
        return Err(format!("{}:{} number followed by name start or dot", p.line, p.col));
    }
    Ok(if float { Tok::Float(s) } else { Tok::Int(s) })
}

fn hex4(lx: &mut Lx) -> PResult<u32> {
    let mut v = 0u32;
    for _ in 0..4 {
        let c = lx.bump().ok_or("unterminated \\u escape")?;
        v = v * 16 + c.to_digit(16).ok_or("bad hex digit")?;
    }
    Ok(v)
}

fn lex_string(lx: &mut Lx) -> PResult<Tok> {
    let p = lx.pos();
    if lx.peek(1) == Some('"') && lx.peek(2) == Some('"') {
        lx.bump();
        lx.bump();
        lx.bump();
        let mut raw = String::new();
        loop {
            match lx.peek(0) {
                None => return Err(format!("{}:{} unterminated block string", p.line, p.col)),
                Some('"') if lx.peek(1) == Some('"') && lx.peek(2) == Some('"') => {
                    lx.bump();
                    lx.bump();
                    lx.bump();
                    break;
                }
                Some('\\')
                    if lx.peek(1) == Some('"') && lx.peek(2) == Some('"') && lx.peek(3) == Some('"') =>
                {
                    lx.bump();
                    lx.bump();
                    lx.bump();
                    lx.bump();
                    raw.push_str("\"\"\"");
                }
                Some(c) => {
                    raw.push(c);
                    lx.bump();
                }
            }
        }
        return Ok(Tok::Str(block_string_value(&raw), true));
    }
    lx.bump();
    let mut s = String::new();
    loop {
        match lx.bump() {
            None | Some('\n') | Some('\r') => {
                return Err(format!("{}:{} unterminated string", p.line, p.col));
            }
            Some('"') => break,
            Some('\\') => match lx.bump() {
                Some('"') => s.push('"'),
                Some('\\') => s.push('\\'),
                Some('/') => s.push('/'),
                Some('b') => s.push('\u{8}'),
                Some('f') => s.push('\u{c}'),
                Some('n') => s.push('\n'),
                Some('r') => s.push('\r'),
                Some('t') => s.push('\t'),
                Some('u') => {
                    if lx.peek(0) == Some('{') {
                        lx.bump();
                        let mut v: u32 = 0;
                        let mut n = 0;
                        loop {
                            match lx.bump() {
                                Some('}') => break,
                                Some(c) => {
                                    let d = c.to_digit(16).ok_or("bad hex digit in \\u{}")?;
                                    v = v.checked_mul(16).and_then(|x| x.checked_add(d)).ok_or("\\u{} too large")?;
                                    n += 1;
                                }
                                None => return Err("unterminated \\u{".into()),
                            }
                        }
                        if n == 0 {
                            return Err("empty \\u{}".into());
                        }
                        s.push(char::from_u32(v).ok_or("\\u{} is not a Unicode scalar value")?);
                    } else {
                        let hi = hex4(lx)?;
                        if (0xD800..0xDC00).contains(&hi) {
                            // must be followed by a low surrogate escape
                            if lx.peek(0) == Some('\\') && lx.peek(1) == Some('u') {
                                lx.bump();
                                lx.bump();
                                let lo = hex4(lx)?;
                                if !(0xDC00..0xE000).contains(&lo) {
                                    return Err("lone high surrogate".into());
                                }
                                let cp = 0x10000 + ((hi - 0xD800) << 10) + (lo - 0xDC00);
                                s.push(char::from_u32(cp).ok_or("bad surrogate pair")?);
                            } else {
                                return Err("lone high surrogate".into());
                            }
                        } else if (0xDC00..0xE000).contains(&hi) {
                            return Err("lone low surrogate".into());
                        } else {
                            s.push(char::from_u32(hi).ok_or("bad \\u escape")?);
                        }
                    }
                }
                other => return Err(format!("bad escape {other:?}")),
            },
            Some(c) => s.push(c),
        }
    }
    Ok(Tok::Str(s, false))
}

// ------------------------------------------------------------------ parser

pub struct Parser {
    toks: Vec<Token>,
    i: usize,
}

impl Parser {
    pub fn new(text: &str) -> PResult<Parser> {
        Ok(Parser {
            toks: lex(text)?,
            i: 0,
        })
    }
    fn peek(&self) -> &Token {
        &self.toks[self.i]
    }
    fn peek_at(&self, k: usize) -> &Token {
        &self.toks[(self.i + k).min(self.toks.len() - 1)]
    }
    fn next(&mut self) -> Token {
        let t = self.toks[self.i].clone();
        if self.i < self.toks.len() - 1 {
            self.i += 1;
        }
        t
    }
    fn err<T>(&self, what: &str) -> PResult<T> {
        let t = self.peek();
        Err(format!("{}:{} expected {what}, found {:?}", t.p.line, t.p.col, t.t))
    }
    fn is_punct(&self, s: &str) -> bool {
        matches!(&self.peek().t, Tok::Punct(p) if *p == s)
    }
    fn is_kw(&self, s: &str) -> bool {
        matches!(&self.peek().t, Tok::Name(n) if n == s)
    }
    fn expect_punct(&mut self, s: &str) -> PResult<P> {
        if self.is_punct(s) {
            Ok(self.next().p)
        } else {
            self.err(s)
        }
    }
    fn expect_kw(&mut self, s: &str) -> PResult<P> {
        if self.is_kw(s) {
            Ok(self.next().p)
        } else {
            self.err(s)
        }
    }
    fn name(&mut self) -> PResult<Name> {
        match &self.peek().t {
            Tok::Name(n) => {
                let n = n.clone();
                let p = self.next().p;
                Ok(Name { p, s: n })
            }
            _ => self.err("Name"),
        }
    }

    fn value(&mut self, constant: bool) -> PResult<Value> {
        let t = self.peek().clone();
        match &t.t {
            Tok::Punct("$") => {
                if constant {
                    return self.err("constant value");
                }
                self.next();
                let n = self.name()?;
                Ok(Value::Var(t.p, n.s))
            }
            Tok::Int(s) => {
                self.next();
                Ok(Value::Int(t.p, s.clone()))
            }
            Tok::Float(s) => {
                self.next();
                Ok(Value::Float(t.p, s.clone()))
            }
            Tok::Str(s, _) => {
                self.next();
                Ok(Value::Str(t.p, s.clone()))
            }
            Tok::Name(n) => {
                self.next();
                Ok(match n.as_str() {
                    "true" => Value::Bool(t.p, true),
                    "false" => Value::Bool(t.p, false),
                    "null" => Value::Null(t.p),
                    _ => Value::Enum(t.p, n.clone()),
                })
            }
            Tok::Punct("[") => {
                self.next();
                let mut xs = vec![];
                while !self.is_punct("]") {
                    xs.push(self.value(constant)?);
                }
                self.next();
                Ok(Value::List(t.p, xs))
            }
            Tok::Punct("{") => {
                self.next();
                let mut fs = vec![];
                while !self.is_punct("}") {
                    let k = self.name()?;
                    self.expect_punct(":")?;
                    fs.push((k, self.value(constant)?));
                }
                self.next();
                Ok(Value::Obj(t.p, fs))
            }
            _ => self.err("Value"),
        }
    }

    fn ty(&mut self) -> PResult<Ty> {
        let t = if self.is_punct("[") {
            let p = self.next().p;
            let inner = self.ty()?;
            self.expect_punct("]")?;
            Ty::List(p, Box::new(inner))
        } else {
            Ty::Named(self.name()?)
        };
        if self.is_punct("!") {
            self.next();
            Ok(Ty::NonNull(Box::new(t)))
        } else {
            Ok(t)
        }
    }

    fn args(&mut self, constant: bool) -> PResult<Option<Args>> {
        if !self.is_punct("(") {
            return Ok(None);
        }
        let p = self.next().p;
        let mut items = vec![];
        loop {
            let k = self.name()?;
            self.expect_punct(":")?;
            items.push((k, self.value(constant)?));
            if self.is_punct(")") {
                break;
            }
        }
        self.next();
        Ok(Some(Args { p, items }))
    }

    fn dirs(&mut self, constant: bool) -> PResult<Vec<Dir>> {
        let mut out = vec![];
        while self.is_punct("@") {
            let p = self.next().p;
            let name = self.name()?;
            let args = self.args(constant)?;
            out.push(Dir { p, name, args });
        }
        Ok(out)
    }

    fn selset(&mut self) -> PResult<SelSet> {
        let p = self.expect_punct("{")?;
        let mut items = vec![];
        loop {
            if self.is_punct("...") {
                let sp = self.next().p;
                if self.is_kw("on") {
                    self.next();
                    let cond = self.name()?;
                    let dirs = self.dirs(false)?;
                    let sel = self.selset()?;
                    items.push(Sel::Inline {
                        p: sp,
                        cond: Some(cond),
                        dirs,
                        sel,
                    });
                } else if matches!(self.peek().t, Tok::Name(_)) {
                    let name = self.name()?;
                    let dirs = self.dirs(false)?;
                    items.push(Sel::Spread { p: sp, name, dirs });
                } else {
                    let dirs = self.dirs(false)?;
                    let sel = self.selset()?;
                    items.push(Sel::Inline {
                        p: sp,
                        cond: None,
                        dirs,
                        sel,
                    });
                }
            } else {
                let first = self.name()?;
                let (alias, name) = if self.is_punct(":") {
                    self.next();
                    (Some(first), self.name()?)
                } else {
                    (None, first)
                };
                let args = self.args(false)?;
                let dirs = self.dirs(false)?;
                let sel = if self.is_punct("{") {
                    Some(self.selset()?)
                } else {
                    None
                };
                items.push(Sel::Field {
                    alias,
                    name,
                    args,
                    dirs,
                    sel,
                });
            }
            if self.is_punct("}") {
                break;
            }
        }
        self.next();
        Ok(SelSet { p, items })
    }

    pub fn exec_doc(&mut self) -> PResult<ExecDoc> {
        let mut defs = vec![];
        loop {
            let t = self.peek().clone();
            match &t.t {
                Tok::Eof => break,
                Tok::Import(targets, path, pp) => {
                    self.next();
                    defs.push(ExecDef::Import {
                        p: t.p,
                        targets: targets.clone(),
                        path: (*pp, path.clone()),
                    });
                }
                Tok::Punct("{") => {
                    let sel = self.selset()?;
                    defs.push(ExecDef::Op {
                        p: t.p,
                        kind: OpKind::Query,
                        name: None,
                        vars: None,
                        dirs: vec![],
                        sel,
                    });
                }
                Tok::Name(n) if n == "fragment" => {
                    self.next();
                    if self.is_kw("on") {
                        return self.err("fragment name (not `on`)");
                    }
                    let name = self.name()?;
                    self.expect_kw("on")?;
                    let cond = self.name()?;
                    let dirs = self.dirs(false)?;
                    let sel = self.selset()?;
                    defs.push(ExecDef::Frag {
                        p: t.p,
                        name,
                        cond,
                        dirs,
                        sel,
                    });
                }
                Tok::Name(n) if matches!(n.as_str(), "query" | "mutation" | "subscription") => {
                    let kind = match n.as_str() {
                        "query" => OpKind::Query,
                        "mutation" => OpKind::Mutation,
                        _ => OpKind::Subscription,
                    };
                    self.next();
                    let name = if matches!(self.peek().t, Tok::Name(_)) {
                        Some(self.name()?)
                    } else {
                        None
                    };
                    let vars = if self.is_punct("(") {
                        let vp = self.next().p;
                        let mut vs = vec![];
                        loop {
                            let dp = self.expect_punct("$")?;
                            let n = self.name()?;
                            self.expect_punct(":")?;
                            let ty = self.ty()?;
                            let default = if self.is_punct("=") {
                                self.next();
                                Some(self.value(true)?)
                            } else {
                                None
                            };
                            let dirs = self.dirs(true)?;
                            vs.push(VarDef {
                                p: dp,
                                name: Name { p: dp, s: n.s },
                                ty,
                                default,
                                dirs,
                            });
                            if self.is_punct(")") {
                                break;
                            }
                        }
                        self.next();
                        Some((vp, vs))
                    } else {
                        None
                    };
                    let dirs = self.dirs(false)?;
                    let sel = self.selset()?;
                    defs.push(ExecDef::Op {
                        p: t.p,
                        kind,
                        name,
                        vars,
                        dirs,
                        sel,
                    });
                }
                _ => return self.err("executable definition"),
            }
        }
        if defs.is_empty() {
            return Err("empty document".into());
        }
        Ok(ExecDoc { defs })
    }

    fn desc(&mut self) -> Option<(P, String)> {
        if let Tok::Str(s, _) = &self.peek().t {
            let s = s.clone();
            let p = self.next().p;
            Some((p, s))
        } else {
            None
        }
    }

    fn input_values(&mut self, open: &str, close: &str) -> PResult<Vec<InputValueDef>> {
        self.expect_punct(open)?;
        let mut out = vec![];
        loop {
            let desc = self.desc();
            let name = self.name()?;
            self.expect_punct(":")?;
            let ty = self.ty()?;
            let default = if self.is_punct("=") {
                self.next();
                Some(self.value(true)?)
            } else {
                None
            };
            let dirs = self.dirs(true)?;
            out.push(InputValueDef {
                desc,
                p: name.p,
                name,
                ty,
                default,
                dirs,
            });
            if self.is_punct(close) {
                break;
            }
        }
        self.next();
        Ok(out)
    }

    fn implements(&mut self) -> PResult<Vec<Name>> {
        let mut out = vec![];
        if self.is_kw("implements") {
            self.next();
            if self.is_punct("&") {
                self.next();
            }
            out.push(self.name()?);
            while self.is_punct("&") {
                self.next();
                out.push(self.name()?);
            }
        }
        Ok(out)
    }

    fn fields(&mut self) -> PResult<Vec<FieldDef>> {
        self.expect_punct("{")?;
        let mut out = vec![];
        loop {
            let desc = self.desc();
            let name = self.name()?;
            let args = if self.is_punct("(") {
                Some(self.input_values("(", ")")?)
            } else {
                None
            };
            self.expect_punct(":")?;
            let ty = self.ty()?;
            let dirs = self.dirs(true)?;
            out.push(FieldDef {
                desc,
                name,
                args,
                ty,
                dirs,
            });
            if self.is_punct("}") {
                break;
            }
        }
        self.next();
        Ok(out)
    }

    fn roots(&mut self) -> PResult<Vec<(OpKind, Name)>> {
        self.expect_punct("{")?;
        let mut out = vec![];
        loop {
            let k = self.name()?;
            let kind = match k.s.as_str() {
                "query" => OpKind::Query,
                "mutation" => OpKind::Mutation,
                "subscription" => OpKind::Subscription,
                _ => return Err(format!("{}:{} bad root operation type", k.p.line, k.p.col)),
            };
            self.expect_punct(":")?;
            out.push((kind, self.name()?));
            if self.is_punct("}") {
                break;
            }
        }
        self.next();
        Ok(out)
    }

    pub fn ts_doc(&mut self) -> PResult<TsDoc> {
        let mut defs = vec![];
        while !matches!(self.peek().t, Tok::Eof) {
            let p_first = self.peek().p;
            let desc = self.desc();
            let ext = if self.is_kw("extend") {
                if desc.is_some() {
                    return self.err("definition after description (extensions carry none)");
                }
                self.next();
                true
            } else {
                false
            };
            let kwt = self.peek().clone();
            let Tok::Name(kw) = &kwt.t else {
                return self.err("type system definition");
            };
            let kind = match kw.as_str() {
                "schema" => TsKind::Schema,
                "scalar" => TsKind::Scalar,
                "type" => TsKind::Object,
                "interface" => TsKind::Interface,
                "union" => TsKind::Union,
                "enum" => TsKind::Enum,
                "input" => TsKind::Input,
                "directive" if !ext => TsKind::Directive,
                _ => return self.err("type system definition keyword"),
            };
            self.next();
            let mut d = TsDef::new(kind, None);
            d.ext = ext;
            d.desc = desc;
            d.p_first = p_first;
            d.p_kw = kwt.p;
            match kind {
                TsKind::Schema => {
                    d.dirs = self.dirs(true)?;
                    if self.is_punct("{") {
                        d.roots = self.roots()?;
                    } else if !ext || d.dirs.is_empty() {
                        return self.err("root operation types");
                    }
                }
                TsKind::Scalar => {
                    d.name = Some(self.name()?);
                    d.dirs = self.dirs(true)?;
                    if ext && d.dirs.is_empty() {
                        return self.err("directives on scalar extension");
                    }
                }
                TsKind::Object | TsKind::Interface => {
                    d.name = Some(self.name()?);
                    d.implements = self.implements()?;
                    d.dirs = self.dirs(true)?;
                    if self.is_punct("{") {
                        d.fields = self.fields()?;
                    } else if ext && d.dirs.is_empty() && d.implements.is_empty() {
                        return self.err("extension body");
                    }
                }
                TsKind::Union => {
                    d.name = Some(self.name()?);
                    d.dirs = self.dirs(true)?;
                    if self.is_punct("=") {
                        self.next();
                        if self.is_punct("|") {
                            self.next();
                        }
                        d.members.push(self.name()?);
                        while self.is_punct("|") {
                            self.next();
                            d.members.push(self.name()?);
                        }
                    } else if ext && d.dirs.is_empty() {
                        return self.err("extension body");
                    }
                }
                TsKind::Enum => {
                    d.name = Some(self.name()?);
                    d.dirs = self.dirs(true)?;
                    if self.is_punct("{") {
                        self.next();
                        loop {
                            let desc = self.desc();
                            let name = self.name()?;
                            if matches!(name.s.as_str(), "true" | "false" | "null") {
                                return Err("enum value may not be true/false/null".into());
                            }
                            let dirs = self.dirs(true)?;
                            d.values.push(EnumValDef { desc, name, dirs });
                            if self.is_punct("}") {
                                break;
                            }
                        }
                        self.next();
                    } else if ext && d.dirs.is_empty() {
                        return self.err("extension body");
                    }
                }
                TsKind::Input => {
                    d.name = Some(self.name()?);
                    d.dirs = self.dirs(true)?;
                    if self.is_punct("{") {
                        d.input_fields = self.input_values("{", "}")?;
                    } else if ext && d.dirs.is_empty() {
                        return self.err("extension body");
                    }
                }
                TsKind::Directive => {
                    self.expect_punct("@")?;
                    d.name = Some(self.name()?);
                    if self.is_punct("(") {
                        d.dir_args = Some(self.input_values("(", ")")?);
                    }
                    if self.is_kw("repeatable") {
                        self.next();
                        d.repeatable = true;
                    }
                    self.expect_kw("on")?;
                    if self.is_punct("|") {
                        self.next();
                    }
                    loop {
                        let l = self.name()?;
                        if !LOCATIONS.contains(&l.s.as_str()) {
                            return Err(format!("{}:{} unknown directive location {}", l.p.line, l.p.col, l.s));
                        }
                        d.locations.push(l);
                        if self.is_punct("|") {
                            self.next();
                        } else {
                            break;
                        }
                    }
                }
            }
            defs.push(d);
        }
        if defs.is_empty() {
            return Err("empty document".into());
        }
        Ok(TsDoc { defs })
    }
}

pub const EXEC_LOCATIONS: [&str; 8] = [
    "QUERY",
    "MUTATION",
    "SUBSCRIPTION",
    "FIELD",
    "FRAGMENT_DEFINITION",
    "FRAGMENT_SPREAD",
    "INLINE_FRAGMENT",
    "VARIABLE_DEFINITION",
];
pub const TS_LOCATIONS: [&str; 11] = [
    "SCHEMA",
    "SCALAR",
    "OBJECT",
    "FIELD_DEFINITION",
    "ARGUMENT_DEFINITION",
    "INTERFACE",
    "UNION",
    "ENUM",
    "ENUM_VALUE",
    "INPUT_OBJECT",
    "INPUT_FIELD_DEFINITION",
];
pub const LOCATIONS: [&str; 19] = [
    "QUERY",
    "MUTATION",
    "SUBSCRIPTION",
    "FIELD",
    "FRAGMENT_DEFINITION",
    "FRAGMENT_SPREAD",
    "INLINE_FRAGMENT",
    "VARIABLE_DEFINITION",
    "SCHEMA",
    "SCALAR",
    "OBJECT",
    "FIELD_DEFINITION",
    "ARGUMENT_DEFINITION",
    "INTERFACE",
    "UNION",
    "ENUM",
    "ENUM_VALUE",
    "INPUT_OBJECT",
    "INPUT_FIELD_DEFINITION",
];

pub fn parse_exec(text: &str) -> PResult<ExecDoc> {
    Parser::new(text)?.exec_doc()
}
pub fn parse_ts(text: &str) -> PResult<TsDoc> {
    Parser::new(text)?.ts_doc()
}
