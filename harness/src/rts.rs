//! R-TS — reader and evaluator for the TypeScript subset nitrogql emits (see DESIGN §2.1, App. A).
//! Lexer, parser to an AST, module/namespace scoping, evaluation to a semantic type, membership
//! of abstract JSON values, canonical forms. Any construct outside the subset is a hard error
//! (reported by callers as machinery, or as "not well-formed TypeScript" where that is the oracle).

use std::collections::BTreeMap;
use std::rc::Rc;

// ------------------------------------------------------------------ lexer

#[derive(Clone, Debug, PartialEq)]
pub enum Tk {
    Id(String),
    Str(String),
    Num(String),
    P(&'static str),
    /// a template literal (only `export const schema = `...`` uses it); raw text between backticks
    Tpl(String),
    Eof,
}

pub type R<T> = Result<T, String>;

pub fn lex(src: &str) -> R<Vec<(Tk, usize)>> {
    let cs: Vec<char> = src.chars().collect();
    let mut i = 0;
    let mut out = vec![];
    let mut line = 1usize;
    while i < cs.len() {
        let c = cs[i];
        if c == '\n' {
            line += 1;
            i += 1;
            continue;
        }
        if c.is_whitespace() {
            i += 1;
            continue;
        }
        if c == '/' && cs.get(i + 1) == Some(&'/') {
            while i < cs.len() && cs[i] != '\n' {
                i += 1;
            }
            continue;
        }
        if c == '/' && cs.get(i + 1) == Some(&'*') {
            // block / JSDoc comment: ends at the FIRST */
            let start_line = line;
            i += 2;
            loop {
                if i + 1 >= cs.len() {
                    return Err(format!("line {start_line}: unterminated comment"));
                }
                if cs[i] == '*' && cs[i + 1] == '/' {
                    i += 2;
                    break;
                }
                if cs[i] == '\n' {
                    line += 1;
                }
                i += 1;
            }
            continue;
        }
        if c.is_ascii_alphabetic() || c == '_' || c == '$' {
            let s = i;
            while i < cs.len() && (cs[i].is_ascii_alphanumeric() || cs[i] == '_' || cs[i] == '$') {
                i += 1;
            }
            out.push((Tk::Id(cs[s..i].iter().collect()), line));
            continue;
        }
        if c.is_ascii_digit() || (c == '-' && cs.get(i + 1).is_some_and(|d| d.is_ascii_digit())) {
            let s = i;
            i += 1;
            while i < cs.len() && (cs[i].is_ascii_alphanumeric() || cs[i] == '.' || ((cs[i] == '+' || cs[i] == '-') && matches!(cs[i - 1], 'e' | 'E'))) {
                i += 1;
            }
            out.push((Tk::Num(cs[s..i].iter().collect()), line));
            continue;
        }
        if c == '"' || c == '\'' {
            let q = c;
            i += 1;
            let mut s = String::new();
            loop {
                let Some(&ch) = cs.get(i) else { return Err(format!("line {line}: unterminated string")) };
                i += 1;
                if ch == q {
                    break;
                }
                if ch == '\n' {
                    return Err(format!("line {line}: newline in string literal"));
                }
                if ch == '\\' {
                    let Some(&e) = cs.get(i) else { return Err("bad escape".into()) };
                    i += 1;
                    match e {
                        'n' => s.push('\n'),
                        'r' => s.push('\r'),
                        't' => s.push('\t'),
                        'b' => s.push('\u{8}'),
                        'f' => s.push('\u{c}'),
                        'u' => {
                            let h: String = cs.get(i..i + 4).map(|x| x.iter().collect()).unwrap_or_default();
                            let v = u32::from_str_radix(&h, 16).map_err(|_| format!("line {line}: bad \\u escape"))?;
                            i += 4;
                            s.push(char::from_u32(v).unwrap_or('\u{fffd}'));
                        }
                        other => s.push(other),
                    }
                } else {
                    s.push(ch);
                }
            }
            out.push((Tk::Str(s), line));
            continue;
        }
        if c == '`' {
            i += 1;
            let mut s = String::new();
            loop {
                let Some(&ch) = cs.get(i) else { return Err(format!("line {line}: unterminated template literal")) };
                i += 1;
                if ch == '`' {
                    break;
                }
                if ch == '\n' {
                    line += 1;
                }
                if ch == '\\' {
                    s.push(ch);
                    if let Some(&e) = cs.get(i) {
                        s.push(e);
                        i += 1;
                    }
                    continue;
                }
                s.push(ch);
            }
            out.push((Tk::Tpl(s), line));
            continue;
        }
        let three: String = cs[i..(i + 3).min(cs.len())].iter().collect();
        if three == "..." {
            out.push((Tk::P("..."), line));
            i += 3;
            continue;
        }
        let two: String = cs[i..(i + 2).min(cs.len())].iter().collect();
        if two == "=>" {
            out.push((Tk::P("=>"), line));
            i += 2;
            continue;
        }
        let p = match c {
            '{' => "{",
            '}' => "}",
            '(' => "(",
            ')' => ")",
            '[' => "[",
            ']' => "]",
            '<' => "<",
            '>' => ">",
            '|' => "|",
            '&' => "&",
            ';' => ";",
            ':' => ":",
            ',' => ",",
            '.' => ".",
            '?' => "?",
            '=' => "=",
            '*' => "*",
            '-' => "-",
            '+' => "+",
            _ => return Err(format!("line {line}: unexpected character {c:?}")),
        };
        out.push((Tk::P(p), line));
        i += 1;
    }
    out.push((Tk::Eof, line));
    Ok(out)
}

// ------------------------------------------------------------------ AST

#[derive(Clone, Debug, PartialEq)]
pub enum Te {
    /// qualified name with type arguments: a.b.C<X, Y>
    Ref(Vec<String>, Vec<Te>),
    Lit(String),
    NumLit(String),
    Obj(Vec<Prop>),
    Union(Vec<Te>),
    Inter(Vec<Te>),
    Arr(Box<Te>, bool),
    Index(Box<Te>, Box<Te>),
    Keyof(Box<Te>),
    /// { [K in C]?: Body }  (readonly/optional modifiers: None = keep (homomorphic), Some(b) = set)
    Mapped { k: String, c: Box<Te>, body: Box<Te>, optional: bool },
    Cond(Box<Te>, Box<Te>, Box<Te>, Box<Te>),
    Infer(String),
    Fn(Vec<(String, Te)>, Box<Te>),
    Paren(Box<Te>),
}

#[derive(Clone, Debug, PartialEq)]
pub struct Prop {
    pub key: String,
    pub optional: bool,
    pub readonly: bool,
    pub ty: Te,
}

#[derive(Clone, Debug)]
pub enum Decl {
    Type { name: String, params: Vec<String>, body: Te, exported: bool },
    Const { name: String, ty: Option<Te>, init: Option<serde_json::Value>, init_tpl: Option<String>, exported: bool, declared: bool },
    Namespace { name: String, body: Vec<Decl>, exported: bool },
    /// export type { a as b }  /  export { a as default }
    ExportAs { local: String, exported: String, type_only: bool },
    ImportNs { alias: String, from: String },
    ImportNamed { names: Vec<String>, from: String },
}

struct Ps {
    t: Vec<(Tk, usize)>,
    i: usize,
}

impl Ps {
    fn peek(&self) -> &Tk {
        &self.t[self.i].0
    }
    fn peek_at(&self, k: usize) -> &Tk {
        &self.t[(self.i + k).min(self.t.len() - 1)].0
    }
    fn line(&self) -> usize {
        self.t[self.i].1
    }
    fn next(&mut self) -> Tk {
        let t = self.t[self.i].0.clone();
        if self.i < self.t.len() - 1 {
            self.i += 1;
        }
        t
    }
    fn is_p(&self, p: &str) -> bool {
        matches!(self.peek(), Tk::P(x) if *x == p)
    }
    fn is_id(&self, s: &str) -> bool {
        matches!(self.peek(), Tk::Id(x) if x == s)
    }
    fn eat_p(&mut self, p: &str) -> R<()> {
        if self.is_p(p) {
            self.next();
            Ok(())
        } else {
            Err(format!("line {}: expected {p:?}, found {:?}", self.line(), self.peek()))
        }
    }
    fn eat_id(&mut self, s: &str) -> R<()> {
        if self.is_id(s) {
            self.next();
            Ok(())
        } else {
            Err(format!("line {}: expected {s:?}, found {:?}", self.line(), self.peek()))
        }
    }
    fn ident(&mut self) -> R<String> {
        match self.next() {
            Tk::Id(s) => Ok(s),
            other => Err(format!("line {}: expected identifier, found {other:?}", self.line())),
        }
    }

    fn ty(&mut self) -> R<Te> {
        // conditional
        let left = self.union()?;
        if self.is_id("extends") {
            self.next();
            let ext = self.union()?;
            self.eat_p("?")?;
            let a = self.ty()?;
            self.eat_p(":")?;
            let b = self.ty()?;
            return Ok(Te::Cond(Box::new(left), Box::new(ext), Box::new(a), Box::new(b)));
        }
        Ok(left)
    }
    fn union(&mut self) -> R<Te> {
        if self.is_p("|") {
            self.next();
        }
        let mut items = vec![self.inter()?];
        while self.is_p("|") {
            self.next();
            items.push(self.inter()?);
        }
        Ok(if items.len() == 1 { items.pop().unwrap() } else { Te::Union(items) })
    }
    fn inter(&mut self) -> R<Te> {
        let mut items = vec![self.postfix()?];
        while self.is_p("&") {
            self.next();
            items.push(self.postfix()?);
        }
        Ok(if items.len() == 1 { items.pop().unwrap() } else { Te::Inter(items) })
    }
    fn postfix(&mut self) -> R<Te> {
        if self.is_id("readonly") {
            self.next();
            let t = self.postfix()?;
            return match t {
                Te::Arr(e, _) => Ok(Te::Arr(e, true)),
                other => Err(format!("line {}: readonly applied to non-array {other:?}", self.line())),
            };
        }
        if self.is_id("keyof") {
            self.next();
            let t = self.postfix()?;
            return Ok(Te::Keyof(Box::new(t)));
        }
        if self.is_id("infer") {
            self.next();
            return Ok(Te::Infer(self.ident()?));
        }
        let mut t = self.primary()?;
        while self.is_p("[") {
            self.next();
            if self.is_p("]") {
                self.next();
                t = Te::Arr(Box::new(t), false);
            } else {
                let idx = self.ty()?;
                self.eat_p("]")?;
                t = Te::Index(Box::new(t), Box::new(idx));
            }
        }
        Ok(t)
    }
    fn looks_like_fn(&self) -> bool {
        // "(" ")" "=>"   or   "(" Id ":" ...
        matches!(self.peek_at(1), Tk::P(")")) && matches!(self.peek_at(2), Tk::P("=>")) || (matches!(self.peek_at(1), Tk::Id(_)) && matches!(self.peek_at(2), Tk::P(":") | Tk::P("?")))
    }
    fn primary(&mut self) -> R<Te> {
        match self.peek().clone() {
            Tk::P("(") => {
                if self.looks_like_fn() {
                    self.next();
                    let mut params = vec![];
                    while !self.is_p(")") {
                        let n = self.ident()?;
                        if self.is_p("?") {
                            self.next();
                        }
                        self.eat_p(":")?;
                        params.push((n, self.ty()?));
                        if self.is_p(",") {
                            self.next();
                        }
                    }
                    self.next();
                    self.eat_p("=>")?;
                    let r = self.ty()?;
                    return Ok(Te::Fn(params, Box::new(r)));
                }
                self.next();
                let t = self.ty()?;
                self.eat_p(")")?;
                Ok(Te::Paren(Box::new(t)))
            }
            Tk::P("{") => self.object(),
            Tk::Str(s) => {
                self.next();
                Ok(Te::Lit(s))
            }
            Tk::Num(s) => {
                self.next();
                Ok(Te::NumLit(s))
            }
            Tk::Id(_) => {
                let mut path = vec![self.ident()?];
                while self.is_p(".") {
                    self.next();
                    path.push(self.ident()?);
                }
                let mut args = vec![];
                if self.is_p("<") {
                    self.next();
                    loop {
                        args.push(self.ty()?);
                        if self.is_p(",") {
                            self.next();
                            continue;
                        }
                        break;
                    }
                    self.eat_p(">")?;
                }
                Ok(Te::Ref(path, args))
            }
            other => Err(format!("line {}: unexpected {other:?} in type", self.line())),
        }
    }
    fn object(&mut self) -> R<Te> {
        self.eat_p("{")?;
        // mapped type?
        if self.is_p("[") && matches!(self.peek_at(1), Tk::Id(_)) && matches!(self.peek_at(2), Tk::Id(x) if x == "in") {
            self.next();
            let k = self.ident()?;
            self.eat_id("in")?;
            let c = self.ty()?;
            self.eat_p("]")?;
            let optional = if self.is_p("?") {
                self.next();
                true
            } else {
                false
            };
            self.eat_p(":")?;
            let body = self.ty()?;
            if self.is_p(";") {
                self.next();
            }
            self.eat_p("}")?;
            return Ok(Te::Mapped { k, c: Box::new(c), body: Box::new(body), optional });
        }
        let mut props = vec![];
        while !self.is_p("}") {
            let mut readonly = false;
            if self.is_id("readonly") && !matches!(self.peek_at(1), Tk::P(":") | Tk::P("?")) {
                self.next();
                readonly = true;
            }
            let key = match self.next() {
                Tk::Id(s) | Tk::Str(s) => s,
                other => return Err(format!("line {}: bad property key {other:?}", self.line())),
            };
            let optional = if self.is_p("?") {
                self.next();
                true
            } else {
                false
            };
            self.eat_p(":")?;
            let ty = self.ty()?;
            if self.is_p(";") || self.is_p(",") {
                self.next();
            }
            props.push(Prop { key, optional, readonly, ty });
        }
        self.next();
        Ok(Te::Obj(props))
    }

    fn expr_json(&mut self) -> R<serde_json::Value> {
        use serde_json::Value as J;
        match self.next() {
            Tk::P("{") => {
                let mut m = serde_json::Map::new();
                while !self.is_p("}") {
                    let k = match self.next() {
                        Tk::Id(s) | Tk::Str(s) => s,
                        other => return Err(format!("line {}: bad object key {other:?}", self.line())),
                    };
                    self.eat_p(":")?;
                    m.insert(k, self.expr_json()?);
                    if self.is_p(",") {
                        self.next();
                    }
                }
                self.next();
                Ok(J::Object(m))
            }
            Tk::P("[") => {
                let mut v = vec![];
                while !self.is_p("]") {
                    v.push(self.expr_json()?);
                    if self.is_p(",") {
                        self.next();
                    }
                }
                self.next();
                Ok(J::Array(v))
            }
            Tk::Str(s) => Ok(J::String(s)),
            Tk::Num(n) => Ok(serde_json::from_str(&n).unwrap_or(J::Null)),
            Tk::Id(s) if s == "true" => Ok(J::Bool(true)),
            Tk::Id(s) if s == "false" => Ok(J::Bool(false)),
            Tk::Id(s) if s == "null" => Ok(J::Null),
            other => Err(format!("line {}: unsupported expression starting with {other:?}", self.line())),
        }
    }

    fn decls(&mut self, in_ns: bool) -> R<Vec<Decl>> {
        let mut out = vec![];
        loop {
            if matches!(self.peek(), Tk::Eof) {
                if in_ns {
                    return Err("unterminated namespace".into());
                }
                break;
            }
            if in_ns && self.is_p("}") {
                break;
            }
            if self.is_p(";") {
                self.next();
                continue;
            }
            if self.is_id("import") {
                self.next();
                self.eat_id("type")?;
                if self.is_p("*") {
                    self.next();
                    self.eat_id("as")?;
                    let alias = self.ident()?;
                    self.eat_id("from")?;
                    let Tk::Str(from) = self.next() else { return Err("import: expected module string".into()) };
                    out.push(Decl::ImportNs { alias, from });
                } else {
                    self.eat_p("{")?;
                    let mut names = vec![];
                    while !self.is_p("}") {
                        names.push(self.ident()?);
                        if self.is_p(",") {
                            self.next();
                        }
                    }
                    self.next();
                    self.eat_id("from")?;
                    let Tk::Str(from) = self.next() else { return Err("import: expected module string".into()) };
                    out.push(Decl::ImportNamed { names, from });
                }
                continue;
            }
            let mut exported = false;
            let mut declared = false;
            if self.is_id("export") {
                self.next();
                exported = true;
                // export { a as b } / export type { a as b }
                if self.is_p("{") || (self.is_id("type") && matches!(self.peek_at(1), Tk::P("{"))) {
                    let type_only = self.is_id("type");
                    if type_only {
                        self.next();
                    }
                    self.next();
                    while !self.is_p("}") {
                        let local = self.ident()?;
                        let mut exp = local.clone();
                        if self.is_id("as") {
                            self.next();
                            exp = self.ident()?;
                        }
                        out.push(Decl::ExportAs { local, exported: exp, type_only });
                        if self.is_p(",") {
                            self.next();
                        }
                    }
                    self.next();
                    continue;
                }
            }
            if self.is_id("declare") {
                self.next();
                declared = true;
            }
            if self.is_id("namespace") {
                self.next();
                let name = self.ident()?;
                self.eat_p("{")?;
                let body = self.decls(true)?;
                self.eat_p("}")?;
                out.push(Decl::Namespace { name, body, exported });
                continue;
            }
            if self.is_id("type") {
                self.next();
                let name = self.ident()?;
                check_declared_name(&name, true)?;
                let mut params = vec![];
                if self.is_p("<") {
                    self.next();
                    loop {
                        params.push(self.ident()?);
                        if self.is_id("extends") {
                            self.next();
                            let _ = self.ty()?;
                        }
                        if self.is_p("=") {
                            self.next();
                            let _ = self.ty()?;
                        }
                        if self.is_p(",") {
                            self.next();
                            continue;
                        }
                        break;
                    }
                    self.eat_p(">")?;
                }
                self.eat_p("=")?;
                let body = self.ty()?;
                if self.is_p(";") {
                    self.next();
                }
                out.push(Decl::Type { name, params, body, exported });
                continue;
            }
            if self.is_id("const") {
                self.next();
                let name = self.ident()?;
                check_declared_name(&name, false)?;
                let ty = if self.is_p(":") {
                    self.next();
                    Some(self.ty()?)
                } else {
                    None
                };
                let mut init = None;
                let mut init_tpl = None;
                let mut ty = ty;
                if self.is_p("=") {
                    self.next();
                    if let Tk::Tpl(s) = self.peek().clone() {
                        self.next();
                        init_tpl = Some(s);
                    } else {
                        init = Some(self.expr_json()?);
                    }
                    // `as unknown as T` chains
                    while self.is_id("as") {
                        self.next();
                        ty = Some(self.ty()?);
                    }
                }
                if self.is_p(";") {
                    self.next();
                }
                out.push(Decl::Const { name, ty, init, init_tpl, exported, declared });
                continue;
            }
            return Err(format!("line {}: unexpected {:?} at statement start", self.line(), self.peek()));
        }
        Ok(out)
    }
}

/// ECMAScript reserved words (never identifiers) and, for type aliases, TypeScript's predefined type names
/// ("Type alias name cannot be 'string'")
pub const RESERVED_WORDS: [&str; 36] = [
    "break", "case", "catch", "class", "const", "continue", "debugger", "default", "delete", "do", "else", "enum", "export", "extends", "false", "finally", "for", "function", "if", "import", "in",
    "instanceof", "new", "null", "return", "super", "switch", "this", "throw", "true", "try", "typeof", "var", "void", "while", "with",
];
pub const PREDEFINED_TYPE_NAMES: [&str; 11] = ["any", "unknown", "never", "object", "string", "number", "boolean", "bigint", "symbol", "undefined", "void"];

fn check_declared_name(name: &str, is_type: bool) -> R<()> {
    if RESERVED_WORDS.contains(&name) {
        return Err(format!("`{name}` is a reserved word and cannot be declared as a {}", if is_type { "type alias" } else { "constant" }));
    }
    if is_type && PREDEFINED_TYPE_NAMES.contains(&name) {
        return Err(format!("type alias name cannot be `{name}` (a predefined type name)"));
    }
    Ok(())
}

pub fn parse_module(src: &str) -> R<Vec<Decl>> {
    let mut p = Ps { t: lex(src)?, i: 0 };
    p.decls(false)
}
pub fn parse_type(src: &str) -> R<Te> {
    let mut p = Ps { t: lex(src)?, i: 0 };
    let t = p.ty()?;
    if !matches!(p.peek(), Tk::Eof) {
        return Err(format!("trailing tokens after type: {:?}", p.peek()));
    }
    Ok(t)
}

// ------------------------------------------------------------------ semantic types

#[derive(Clone, Debug, PartialEq, Eq, PartialOrd, Ord)]
pub enum T {
    Never,
    Unknown,
    Null,
    Undefined,
    Str,
    Num,
    Bool,
    Lit(String),
    Opaque(String),
    Arr(Box<T>, bool),
    Obj(BTreeMap<String, P2>),
    Union(Vec<T>),
    Fn,
    /// a not yet expanded reference to a non-generic alias: (scope id, name)
    Ref(usize, String),
}

#[derive(Clone, Debug, PartialEq, Eq, PartialOrd, Ord)]
pub struct P2 {
    pub ty: T,
    pub optional: bool,
    pub readonly: bool,
}

/// One scope = module top level or a namespace.
#[derive(Debug, Default, Clone)]
pub struct Scope {
    pub parent: Option<usize>,
    pub name: String,
    pub types: BTreeMap<String, (Vec<String>, Te)>,
    pub namespaces: BTreeMap<String, usize>,
    /// exported type names -> local names (for `export type { __tmp_X as X }` and plain `export type X`)
    pub exports: BTreeMap<String, String>,
    /// import * as NS from "<module>" -> module index
    pub ns_imports: BTreeMap<String, usize>,
    pub consts: BTreeMap<String, Decl>,
    pub value_exports: BTreeMap<String, String>,
    /// names bound by import declarations of this module
    pub imported_names: std::collections::BTreeSet<String>,
}

#[derive(Default, Clone)]
pub struct World {
    pub scopes: Vec<Scope>,
    /// module name -> scope id
    pub modules: BTreeMap<String, usize>,
}

type Env = Rc<BTreeMap<String, T>>;

impl World {
    pub fn new() -> World {
        World::default()
    }
    /// Load a module; `imports` maps module specifiers used in `import type * as X from "spec"` to module names already loaded.
    pub fn load(&mut self, name: &str, src: &str, imports: &BTreeMap<String, String>) -> R<usize> {
        let decls = parse_module(src)?;
        let id = self.scopes.len();
        self.scopes.push(Scope { parent: None, name: name.to_string(), ..Default::default() });
        self.modules.insert(name.to_string(), id);
        self.fill(id, &decls, imports)?;
        Ok(id)
    }
    fn fill(&mut self, id: usize, decls: &[Decl], imports: &BTreeMap<String, String>) -> R<()> {
        for d in decls {
            match d {
                Decl::Type { name, params, body, exported } => {
                    if self.scopes[id].types.contains_key(name) {
                        return Err(format!("duplicate type declaration {name} in {}", self.scopes[id].name));
                    }
                    if self.scopes[id].imported_names.contains(name) {
                        return Err(format!("type declaration {name} conflicts with an import of the same name in {}", self.scopes[id].name));
                    }
                    self.scopes[id].types.insert(name.clone(), (params.clone(), body.clone()));
                    if *exported {
                        self.scopes[id].exports.insert(name.clone(), name.clone());
                    }
                }
                Decl::Namespace { name, body, .. } => {
                    let nid = self.scopes.len();
                    self.scopes.push(Scope { parent: Some(id), name: format!("{}.{}", self.scopes[id].name, name), ..Default::default() });
                    self.scopes[id].namespaces.insert(name.clone(), nid);
                    self.fill(nid, body, imports)?;
                }
                Decl::ExportAs { local, exported, type_only } => {
                    if *type_only {
                        self.scopes[id].exports.insert(exported.clone(), local.clone());
                    } else {
                        self.scopes[id].value_exports.insert(exported.clone(), local.clone());
                    }
                }
                Decl::ImportNs { alias, from } => {
                    if self.scopes[id].types.contains_key(alias) {
                        return Err(format!("import alias {alias} conflicts with a type declaration of the same name in {}", self.scopes[id].name));
                    }
                    self.scopes[id].imported_names.insert(alias.clone());
                    if let Some(m) = imports.get(from).and_then(|m| self.modules.get(m)) {
                        let m = *m;
                        self.scopes[id].ns_imports.insert(alias.clone(), m);
                    }
                }
                Decl::ImportNamed { names, .. } => {
                    for n in names {
                        if self.scopes[id].types.contains_key(n) {
                            return Err(format!("imported name {n} conflicts with a type declaration of the same name in {}", self.scopes[id].name));
                        }
                        self.scopes[id].imported_names.insert(n.clone());
                    }
                }
                Decl::Const { name, exported, .. } => {
                    self.scopes[id].consts.insert(name.clone(), d.clone());
                    if *exported {
                        self.scopes[id].value_exports.insert(name.clone(), name.clone());
                    }
                }
            }
        }
        Ok(())
    }

    /// find the scope that declares type `name`, walking outwards
    fn find_type(&self, scope: usize, name: &str) -> Option<usize> {
        let mut s = Some(scope);
        while let Some(i) = s {
            if self.scopes[i].types.contains_key(name) {
                return Some(i);
            }
            s = self.scopes[i].parent;
        }
        None
    }
    fn find_ns(&self, scope: usize, name: &str) -> Option<usize> {
        let mut s = Some(scope);
        while let Some(i) = s {
            if let Some(n) = self.scopes[i].namespaces.get(name) {
                return Some(*n);
            }
            if let Some(m) = self.scopes[i].ns_imports.get(name) {
                return Some(*m);
            }
            s = self.scopes[i].parent;
        }
        None
    }

    /// Resolve an exported member `name` of scope `ns` (namespace or module) to (scope, local name)
    fn member_type(&self, ns: usize, name: &str) -> Option<(usize, String)> {
        let sc = &self.scopes[ns];
        if let Some(local) = sc.exports.get(name) {
            return Some((ns, local.clone()));
        }
        None
    }

    /// evaluate a type expression that refers to no declaration (scalar mapping texts)
    pub fn eval_in_empty(&self, te: &Te) -> R<T> {
        let mut w = World::new();
        w.scopes.push(Scope::default());
        w.eval(0, te, &Rc::new(BTreeMap::new()), 0)
    }
    pub fn eval_in(&self, scope: usize, te: &Te) -> R<T> {
        self.eval(scope, te, &Rc::new(BTreeMap::new()), 0)
    }
    /// evaluate inside the body of a generic alias: its type parameters are in scope (and shadow declarations of the
    /// same name), each standing for an opaque type of its own
    pub fn eval_in_with_params(&self, scope: usize, te: &Te, params: &[String]) -> R<T> {
        let env: BTreeMap<String, T> = params.iter().map(|p| (p.clone(), T::Opaque(format!("<type parameter {p}>")))).collect();
        self.eval(scope, te, &Rc::new(env), 0)
    }
    /// is `name` declared (as a type alias) in this scope or an enclosing one?
    pub fn declares_type(&self, scope: usize, name: &str) -> bool {
        self.find_type(scope, name).is_some()
    }

    fn eval(&self, scope: usize, te: &Te, env: &Env, depth: usize) -> R<T> {
        if depth > 200 {
            return Err("type evaluation too deep".into());
        }
        Ok(match te {
            Te::Paren(t) => self.eval(scope, t, env, depth + 1)?,
            Te::Lit(s) => T::Lit(s.clone()),
            Te::NumLit(_) => T::Num,
            Te::Fn(..) => T::Fn,
            Te::Infer(n) => return Err(format!("infer {n} outside a conditional type pattern")),
            Te::Arr(e, ro) => T::Arr(Box::new(self.eval(scope, e, env, depth + 1)?), *ro),
            Te::Union(items) => {
                let mut v = vec![];
                for i in items {
                    v.push(self.eval(scope, i, env, depth + 1)?);
                }
                mk_union(v)
            }
            Te::Inter(items) => {
                let mut acc: Option<T> = None;
                for i in items {
                    let t = self.eval(scope, i, env, depth + 1)?;
                    acc = Some(match acc {
                        None => t,
                        Some(a) => self.intersect(a, t, depth)?,
                    });
                }
                acc.unwrap_or(T::Unknown)
            }
            Te::Obj(props) => {
                let mut m = BTreeMap::new();
                for p in props {
                    let ty = self.eval(scope, &p.ty, env, depth + 1)?;
                    if m.insert(p.key.clone(), P2 { ty, optional: p.optional, readonly: p.readonly }).is_some() {
                        return Err(format!("duplicate property {:?} in object type", p.key));
                    }
                }
                T::Obj(m)
            }
            Te::Keyof(t) => {
                let o = self.force_obj(self.eval(scope, t, env, depth + 1)?, depth)?;
                mk_union(o.keys().map(|k| T::Lit(k.clone())).collect())
            }
            Te::Index(o, k) => {
                let ot = self.eval(scope, o, env, depth + 1)?;
                let kt = self.force(self.eval(scope, k, env, depth + 1)?, depth)?;
                let keys = lit_keys(&kt)?;
                let obj = self.force_obj(ot, depth)?;
                let mut v = vec![];
                for key in keys {
                    match obj.get(&key) {
                        Some(p) => {
                            v.push(p.ty.clone());
                            if p.optional {
                                v.push(T::Undefined);
                            }
                        }
                        None => return Err(format!("indexed access: no property {key:?}")),
                    }
                }
                mk_union(v)
            }
            Te::Mapped { k, c, body, optional } => {
                // homomorphic if the constraint is `keyof X`
                let (keys, source): (Vec<String>, Option<BTreeMap<String, P2>>) = match &**c {
                    Te::Keyof(x) => {
                        let o = self.force_obj(self.eval(scope, x, env, depth + 1)?, depth)?;
                        (o.keys().cloned().collect(), Some(o))
                    }
                    other => {
                        let kt = self.force(self.eval(scope, other, env, depth + 1)?, depth)?;
                        (lit_keys(&kt)?, None)
                    }
                };
                let mut m = BTreeMap::new();
                for key in keys {
                    let mut e2 = (**env).clone();
                    e2.insert(k.clone(), T::Lit(key.clone()));
                    let ty = self.eval(scope, body, &Rc::new(e2), depth + 1)?;
                    let (opt, ro) = match &source {
                        Some(o) => (o[&key].optional || *optional, o[&key].readonly),
                        None => (*optional, false),
                    };
                    m.insert(key, P2 { ty, optional: opt, readonly: ro });
                }
                T::Obj(m)
            }
            Te::Cond(a, b, x, y) => {
                let at = self.force(self.eval(scope, a, env, depth + 1)?, depth)?;
                // distribute over unions of the checked type
                let parts = match at {
                    T::Union(v) => v,
                    other => vec![other],
                };
                let mut out = vec![];
                for part in parts {
                    out.push(self.cond_one(scope, part, b, x, y, env, depth)?);
                }
                mk_union(out)
            }
            Te::Ref(path, args) => self.eval_ref(scope, path, args, env, depth)?,
        })
    }

    /// `A extends Pattern ? X : Y` for the patterns that occur: `{ [P in K]?: infer V }` and plain types
    fn cond_one(&self, scope: usize, a: T, pat: &Te, x: &Te, y: &Te, env: &Env, depth: usize) -> R<T> {
        if let Te::Mapped { k: _, c, body, optional: _ } = pat
            && let Te::Infer(v) = &**body
        {
            let kt = self.force(self.eval(scope, c, env, depth + 1)?, depth)?;
            let keys = lit_keys(&kt)?;
            if keys.len() != 1 {
                return Err("infer pattern over several keys".into());
            }
            let obj = self.force_obj(a, depth)?;
            let inferred = match obj.get(&keys[0]) {
                // no such property: `{}` is assignable to `{k?: V}` and V has no inference candidate
                None => T::Unknown,
                Some(p) => {
                    // the optional `undefined` of the pattern is matched away; if nothing is left,
                    // the whole source property type is inferred (tsc's lower-priority inference)
                    let src = if p.optional { mk_union(vec![p.ty.clone(), T::Undefined]) } else { p.ty.clone() };
                    let without_undef = remove_undefined(&self.force(src.clone(), depth)?);
                    if without_undef == T::Never { self.force(src, depth)? } else { without_undef }
                }
            };
            let mut e2 = (**env).clone();
            e2.insert(v.clone(), inferred);
            return self.eval(scope, x, &Rc::new(e2), depth + 1);
        }
        // general case: decided by membership-style assignability on canonical forms (only literal/primitive cases occur)
        let bt = self.force(self.eval(scope, pat, env, depth + 1)?, depth)?;
        if self.assignable(&a, &bt, depth)? { self.eval(scope, x, env, depth + 1) } else { self.eval(scope, y, env, depth + 1) }
    }

    fn assignable(&self, a: &T, b: &T, depth: usize) -> R<bool> {
        let a = self.force(a.clone(), depth)?;
        let b = self.force(b.clone(), depth)?;
        Ok(match (&a, &b) {
            (_, T::Unknown) => true,
            (T::Never, _) => true,
            (T::Union(xs), _) => {
                for x in xs {
                    if !self.assignable(x, &b, depth + 1)? {
                        return Ok(false);
                    }
                }
                true
            }
            (_, T::Union(ys)) => {
                for y in ys {
                    if self.assignable(&a, y, depth + 1)? {
                        return Ok(true);
                    }
                }
                false
            }
            (T::Lit(_), T::Str) => true,
            (x, y) => x == y,
        })
    }

    fn eval_ref(&self, scope: usize, path: &[String], args: &[Te], env: &Env, depth: usize) -> R<T> {
        if path.len() == 1 {
            let n = &path[0];
            if args.is_empty()
                && let Some(t) = env.get(n)
            {
                return Ok(t.clone());
            }
            // built-in keywords and utility types
            match (n.as_str(), args.len()) {
                ("string", 0) => return Ok(T::Str),
                ("number", 0) => return Ok(T::Num),
                ("boolean", 0) => return Ok(T::Bool),
                ("null", 0) => return Ok(T::Null),
                ("undefined", 0) | ("void", 0) => return Ok(T::Undefined),
                ("never", 0) => return Ok(T::Never),
                ("unknown", 0) | ("any", 0) => return Ok(T::Unknown),
                ("true", 0) | ("false", 0) => return Ok(T::Bool),
                _ => {}
            }
            if let Some(s) = self.find_type(scope, n) {
                return self.apply_alias(s, n, args, scope, env, depth);
            }
            match (n.as_str(), args.len()) {
                ("Pick", 2) => {
                    let o = self.force_obj(self.eval(scope, &args[0], env, depth + 1)?, depth)?;
                    let ks = lit_keys(&self.force(self.eval(scope, &args[1], env, depth + 1)?, depth)?)?;
                    return Ok(T::Obj(o.into_iter().filter(|(k, _)| ks.contains(k)).collect()));
                }
                ("Omit", 2) => {
                    let o = self.force_obj(self.eval(scope, &args[0], env, depth + 1)?, depth)?;
                    let ks = lit_keys(&self.force(self.eval(scope, &args[1], env, depth + 1)?, depth)?)?;
                    return Ok(T::Obj(o.into_iter().filter(|(k, _)| !ks.contains(k)).collect()));
                }
                ("Extract", 2) | ("Exclude", 2) => {
                    let a = self.force(self.eval(scope, &args[0], env, depth + 1)?, depth)?;
                    let b = self.force(self.eval(scope, &args[1], env, depth + 1)?, depth)?;
                    let parts = match a {
                        T::Union(v) => v,
                        o => vec![o],
                    };
                    let mut out = vec![];
                    for p in parts {
                        let keep = self.assignable(&p, &b, depth)?;
                        if keep == (n == "Extract") {
                            out.push(p);
                        }
                    }
                    return Ok(mk_union(out));
                }
                ("Promise", 1) | ("TypedDocumentNode", 2) | ("Array", 1) | ("ReadonlyArray", 1) | ("Record", 2) | ("Partial", 1) => {
                    if n == "Array" || n == "ReadonlyArray" {
                        return Ok(T::Arr(Box::new(self.eval(scope, &args[0], env, depth + 1)?), n == "ReadonlyArray"));
                    }
                    return Ok(T::Opaque(format!("{n}<...>")));
                }
                _ => {}
            }
            if args.is_empty() {
                // an identifier that resolves to nothing declared: a global (Date, File, bigint, ...)
                return Ok(T::Opaque(n.clone()));
            }
            return Err(format!("unknown generic type {n}<{} args>", args.len()));
        }
        // qualified name: namespaces / module aliases
        let mut cur = self.find_ns(scope, &path[0]).ok_or_else(|| format!("unknown namespace {}", path[0]))?;
        for seg in &path[1..path.len() - 1] {
            cur = *self.scopes[cur].namespaces.get(seg).ok_or_else(|| format!("unknown namespace {seg} in {}", self.scopes[cur].name))?;
        }
        let last = &path[path.len() - 1];
        let (s, local) = self.member_type(cur, last).ok_or_else(|| format!("{} has no exported type {last}", self.scopes[cur].name))?;
        self.apply_alias(s, &local, args, scope, env, depth)
    }

    fn apply_alias(&self, decl_scope: usize, name: &str, args: &[Te], use_scope: usize, env: &Env, depth: usize) -> R<T> {
        let (params, body) = self.scopes[decl_scope].types.get(name).ok_or_else(|| format!("no type {name} in {}", self.scopes[decl_scope].name))?;
        if params.len() != args.len() {
            return Err(format!("{name} expects {} type arguments, got {}", params.len(), args.len()));
        }
        if params.is_empty() {
            return Ok(T::Ref(decl_scope, name.to_string()));
        }
        let mut e2 = BTreeMap::new();
        for (p, a) in params.iter().zip(args) {
            e2.insert(p.clone(), self.eval(use_scope, a, env, depth + 1)?);
        }
        self.eval(decl_scope, body, &Rc::new(e2), depth + 1)
    }

    /// expand a top-level Ref (not nested ones)
    pub fn force(&self, t: T, depth: usize) -> R<T> {
        let mut t = t;
        let mut n = 0;
        while let T::Ref(s, name) = &t {
            n += 1;
            if n > 50 {
                return Err(format!("circular alias {name}"));
            }
            let (_, body) = self.scopes[*s].types.get(name).ok_or_else(|| format!("dangling alias {name}"))?;
            t = self.eval(*s, body, &Rc::new(BTreeMap::new()), depth + 1)?;
        }
        if let T::Union(v) = &t {
            // expand refs among union members so that unions are flat
            let mut out = vec![];
            for m in v {
                match m {
                    // an alias that is itself a union is spliced in; any other alias stays a reference
                    // (keeps recursive object types finite)
                    T::Ref(..) => match self.force(m.clone(), depth + 1)? {
                        u @ T::Union(_) => out.push(u),
                        T::Never => {}
                        _ => out.push(m.clone()),
                    },
                    o => out.push(o.clone()),
                }
            }
            return Ok(mk_union(out));
        }
        Ok(t)
    }
    fn force_obj(&self, t: T, depth: usize) -> R<BTreeMap<String, P2>> {
        match self.force(t, depth)? {
            T::Obj(m) => Ok(m),
            other => Err(format!("object type expected, found {other:?}")),
        }
    }
    fn intersect(&self, a: T, b: T, depth: usize) -> R<T> {
        let a = self.force(a, depth)?;
        let b = self.force(b, depth)?;
        Ok(match (a, b) {
            (T::Unknown, x) | (x, T::Unknown) => x,
            (T::Never, _) | (_, T::Never) => T::Never,
            (T::Obj(mut x), T::Obj(y)) => {
                for (k, p) in y {
                    match x.remove(&k) {
                        None => {
                            x.insert(k, p);
                        }
                        Some(q) => {
                            let ty = if q.ty == p.ty { q.ty } else { self.intersect(q.ty, p.ty, depth + 1)? };
                            x.insert(k, P2 { ty, optional: q.optional && p.optional, readonly: q.readonly || p.readonly });
                        }
                    }
                }
                T::Obj(x)
            }
            (T::Union(xs), y) => {
                let mut out = vec![];
                for x in xs {
                    out.push(self.intersect(x, y.clone(), depth + 1)?);
                }
                mk_union(out)
            }
            (x, T::Union(ys)) => {
                let mut out = vec![];
                for y in ys {
                    out.push(self.intersect(x.clone(), y, depth + 1)?);
                }
                mk_union(out)
            }
            (x, y) if x == y => x,
            (T::Lit(s), T::Str) | (T::Str, T::Lit(s)) => T::Lit(s),
            _ => T::Never,
        })
    }

    /// fully expanded canonical form up to `fuel` alias expansions along any path (recursive input
    /// objects are cut with Opaque("…rec"))
    pub fn canon(&self, t: &T, fuel: usize) -> R<T> {
        Ok(match t {
            T::Ref(s, n) => {
                if fuel == 0 {
                    return Ok(T::Opaque(format!("…{}", n)));
                }
                let f = self.force(T::Ref(*s, n.clone()), 0)?;
                self.canon(&f, fuel - 1)?
            }
            T::Arr(e, ro) => T::Arr(Box::new(self.canon(e, fuel)?), *ro),
            T::Obj(m) => {
                let mut out = BTreeMap::new();
                for (k, p) in m {
                    let mut ty = self.canon(&p.ty, fuel)?;
                    if p.optional {
                        // k?: T  ==  k?: T | undefined  (exactOptionalPropertyTypes off)
                        ty = mk_union(vec![ty, T::Undefined]);
                    }
                    out.insert(k.clone(), P2 { ty, optional: p.optional, readonly: p.readonly });
                }
                T::Obj(out)
            }
            T::Union(v) => {
                let mut out = vec![];
                for x in v {
                    out.push(self.canon(x, fuel)?);
                }
                mk_union(out)
            }
            other => other.clone(),
        })
    }

    /// does the type admit `undefined` (i.e. may the property be absent when read)?
    pub fn admits_undefined(&self, t: &T) -> R<bool> {
        Ok(match self.force(t.clone(), 0)? {
            T::Undefined | T::Unknown => true,
            T::Union(v) => {
                for x in v {
                    if self.admits_undefined(&x)? {
                        return Ok(true);
                    }
                }
                false
            }
            _ => false,
        })
    }

    /// v ∈ [[t]] under property-read semantics
    pub fn member(&self, v: &Val, t: &T) -> R<bool> {
        let t = self.force(t.clone(), 0)?;
        Ok(match (&t, v) {
            (T::Unknown, _) => true,
            (T::Never, _) | (T::Undefined, _) | (T::Fn, _) => false,
            (T::Null, Val::Null) => true,
            (T::Str, Val::Str(_)) => true,
            (T::Lit(a), Val::Str(b)) => a == b,
            (T::Num, Val::Num) => true,
            (T::Bool, Val::Bool(_)) => true,
            (T::Opaque(a), Val::Atom(b)) => a == b,
            (T::Arr(e, _), Val::List(xs)) => {
                for x in xs {
                    if !self.member(x, e)? {
                        return Ok(false);
                    }
                }
                true
            }
            (T::Obj(props), Val::Rec(m)) => {
                for (k, p) in props {
                    match m.get(k) {
                        Some(x) => {
                            if !self.member(x, &p.ty)? {
                                return Ok(false);
                            }
                        }
                        None => {
                            if !(p.optional || self.admits_undefined(&p.ty)?) {
                                return Ok(false);
                            }
                        }
                    }
                }
                true
            }
            (T::Union(vs), _) => {
                for x in vs {
                    if self.member(v, x)? {
                        return Ok(true);
                    }
                }
                false
            }
            _ => false,
        })
    }

    /// the exported type alias `name` of module `module`
    pub fn exported(&self, module: &str, path: &[&str]) -> R<T> {
        let mut cur = *self.modules.get(module).ok_or_else(|| format!("module {module} not loaded"))?;
        for seg in &path[..path.len() - 1] {
            cur = *self.scopes[cur].namespaces.get(*seg).ok_or_else(|| format!("no namespace {seg}"))?;
        }
        let last = path[path.len() - 1];
        let (s, local) = self.member_type(cur, last).ok_or_else(|| format!("{} exports no type {last}", self.scopes[cur].name))?;
        Ok(T::Ref(s, local))
    }
    /// a (possibly non-exported) top-level alias of a module
    pub fn local(&self, module: &str, name: &str) -> R<T> {
        let m = *self.modules.get(module).ok_or_else(|| format!("module {module} not loaded"))?;
        if self.scopes[m].types.contains_key(name) { Ok(T::Ref(m, name.to_string())) } else { Err(format!("module {module} has no type {name}")) }
    }
}

pub fn mk_union(mut v: Vec<T>) -> T {
    let mut flat = vec![];
    while let Some(x) = v.pop() {
        match x {
            T::Union(inner) => v.extend(inner),
            T::Never => {}
            o => flat.push(o),
        }
    }
    if flat.iter().any(|x| *x == T::Unknown) {
        return T::Unknown;
    }
    flat.sort();
    flat.dedup();
    // a literal is absorbed by string
    if flat.contains(&T::Str) {
        flat.retain(|x| !matches!(x, T::Lit(_)));
    }
    match flat.len() {
        0 => T::Never,
        1 => flat.pop().unwrap(),
        _ => T::Union(flat),
    }
}

fn remove_undefined(t: &T) -> T {
    match t {
        T::Undefined => T::Never,
        T::Union(v) => mk_union(v.iter().filter(|x| **x != T::Undefined).cloned().collect()),
        o => o.clone(),
    }
}

fn lit_keys(t: &T) -> R<Vec<String>> {
    match t {
        T::Lit(s) => Ok(vec![s.clone()]),
        T::Never => Ok(vec![]),
        T::Union(v) => {
            let mut out = vec![];
            for x in v {
                match x {
                    T::Lit(s) => out.push(s.clone()),
                    other => return Err(format!("key type is not a literal: {other:?}")),
                }
            }
            Ok(out)
        }
        other => Err(format!("key type is not a literal union: {other:?}")),
    }
}

// ------------------------------------------------------------------ abstract values

#[derive(Clone, Debug, PartialEq, Eq, PartialOrd, Ord)]
pub enum Val {
    Null,
    Str(String),
    Num,
    Bool(bool),
    Atom(String),
    List(Vec<Val>),
    Rec(BTreeMap<String, Val>),
}

impl Val {
    pub fn show(&self) -> String {
        match self {
            Val::Null => "null".into(),
            Val::Str(s) => format!("{s:?}"),
            Val::Num => "1".into(),
            Val::Bool(b) => b.to_string(),
            Val::Atom(a) => format!("<{a}>"),
            Val::List(xs) => format!("[{}]", xs.iter().map(|x| x.show()).collect::<Vec<_>>().join(", ")),
            Val::Rec(m) => format!("{{{}}}", m.iter().map(|(k, v)| format!("{k}: {}", v.show())).collect::<Vec<_>>().join(", ")),
        }
    }
}

pub fn show_t(t: &T) -> String {
    match t {
        T::Never => "never".into(),
        T::Unknown => "unknown".into(),
        T::Null => "null".into(),
        T::Undefined => "undefined".into(),
        T::Str => "string".into(),
        T::Num => "number".into(),
        T::Bool => "boolean".into(),
        T::Lit(s) => format!("{s:?}"),
        T::Opaque(s) => s.clone(),
        T::Arr(e, ro) => format!("{}({})[]", if *ro { "readonly " } else { "" }, show_t(e)),
        T::Obj(m) => format!("{{{}}}", m.iter().map(|(k, p)| format!("{}{k}{}: {}", if p.readonly { "readonly " } else { "" }, if p.optional { "?" } else { "" }, show_t(&p.ty))).collect::<Vec<_>>().join("; ")),
        T::Union(v) => v.iter().map(show_t).collect::<Vec<_>>().join(" | "),
        T::Fn => "(fn)".into(),
        T::Ref(_, n) => n.clone(),
    }
}

impl World {
    /// path of property names leading to the deepest point where `v` fails to be a member of `t`
    /// (through unions the alternative that gets deepest is followed)
    pub fn explain(&self, v: &Val, t: &T) -> Vec<String> {
        let Ok(t) = self.force(t.clone(), 0) else { return vec![] };
        match (&t, v) {
            (T::Union(vs), _) => {
                let mut best: Vec<String> = vec![];
                for x in vs {
                    if self.member(v, x).unwrap_or(false) {
                        return vec![];
                    }
                    let p = self.explain(v, x);
                    if p.len() > best.len() {
                        best = p;
                    }
                }
                best
            }
            (T::Arr(e, _), Val::List(xs)) => {
                for x in xs {
                    if !self.member(x, e).unwrap_or(false) {
                        return self.explain(x, e);
                    }
                }
                vec![]
            }
            (T::Obj(props), Val::Rec(m)) => {
                for (k, p) in props {
                    match m.get(k) {
                        Some(x) => {
                            if !self.member(x, &p.ty).unwrap_or(false) {
                                let mut path = vec![k.clone()];
                                path.extend(self.explain(x, &p.ty));
                                return path;
                            }
                        }
                        None => {
                            if !(p.optional || self.admits_undefined(&p.ty).unwrap_or(false)) {
                                return vec![k.clone()];
                            }
                        }
                    }
                }
                vec![]
            }
            _ => vec![],
        }
    }
}
