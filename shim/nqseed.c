/* E3 seam: own the per-process randomness behind std::collections::HashMap's SipHash keys.
 * LD_PRELOAD this library and set NQ_SEED=<n>: getrandom(2) (the only entropy source Rust's
 * std uses on Linux for hash keys) then returns a deterministic stream derived from n, so a seed
 * is a replayable choice. Without NQ_SEED the real system call is made. */
#define _GNU_SOURCE
#include <stddef.h>
#include <stdint.h>
#include <stdlib.h>
#include <unistd.h>
#include <sys/types.h>
#include <sys/syscall.h>

static uint64_t counter;

static uint64_t mix(uint64_t z) {
    z += 0x9e3779b97f4a7c15ULL;
    z = (z ^ (z >> 30)) * 0xbf58476d1ce4e5b9ULL;
    z = (z ^ (z >> 27)) * 0x94d049bb133111ebULL;
    return z ^ (z >> 31);
}

ssize_t getrandom(void *buf, size_t len, unsigned int flags) {
    const char *s = getenv("NQ_SEED");
    if (!s) return syscall(SYS_getrandom, buf, len, flags);
    uint64_t seed = strtoull(s, 0, 10);
    unsigned char *p = buf;
    uint64_t cur = 0;
    for (size_t i = 0; i < len; i++) {
        if (i % 8 == 0) {
            uint64_t n = __atomic_fetch_add(&counter, 1, __ATOMIC_SEQ_CST);
            cur = mix(mix(seed) ^ (n * 0xD6E8FEB86659FD93ULL));
        }
        p[i] = (unsigned char)(cur >> (8 * (i % 8)));
    }
    return (ssize_t)len;
}
